// oq3facts: rustc_private fact extractor.
//
// Injected with RUSTC_WORKSPACE_WRAPPER under `cargo +nightly check`. For every
// workspace crate whose name starts with `oq3_` it writes
// `$OQ3FACTS_OUT/<crate>.json` containing ADTs, evaluated constants and the
// (drop-elaborated, opt-level 0) MIR of every body with resolved callees,
// spans and macro provenance. Nothing of the compiled crate is executed.
#![feature(rustc_private)]
#![allow(clippy::all)]

extern crate rustc_abi;
extern crate rustc_driver;
extern crate rustc_hir;
extern crate rustc_interface;
extern crate rustc_middle;
extern crate rustc_span;

use rustc_driver::Compilation;
use rustc_hir::def::DefKind;
use rustc_hir::def_id::{DefId, LOCAL_CRATE};
use rustc_middle::mir::{
    self, AggregateKind, BasicBlockData, BinOp, Body, CastKind, Const, ConstValue, Operand, Place,
    ProjectionElem, Rvalue, StatementKind, TerminatorKind, UnOp,
};
use rustc_middle::ty::print::{with_crate_prefix, with_no_trimmed_paths};
use rustc_middle::ty::{self, GenericArgKind, Instance, Ty, TyCtxt, TypingEnv};
use rustc_span::Span;
use std::fmt::Write as _;

// ---------------------------------------------------------------- JSON
enum J {
    Null,
    Bool(bool),
    Num(String),
    Str(String),
    Arr(Vec<J>),
    Obj(Vec<(&'static str, J)>),
}
fn s<T: Into<String>>(x: T) -> J {
    J::Str(x.into())
}
fn n<T: std::fmt::Display>(x: T) -> J {
    J::Num(x.to_string())
}
impl J {
    fn write(&self, out: &mut String) {
        match self {
            J::Null => out.push_str("null"),
            J::Bool(b) => out.push_str(if *b { "true" } else { "false" }),
            J::Num(x) => out.push_str(x),
            J::Str(x) => {
                out.push('"');
                for c in x.chars() {
                    match c {
                        '"' => out.push_str("\\\""),
                        '\\' => out.push_str("\\\\"),
                        '\n' => out.push_str("\\n"),
                        '\r' => out.push_str("\\r"),
                        '\t' => out.push_str("\\t"),
                        c if (c as u32) < 0x20 => {
                            let _ = write!(out, "\\u{:04x}", c as u32);
                        }
                        c => out.push(c),
                    }
                }
                out.push('"');
            }
            J::Arr(v) => {
                out.push('[');
                for (i, e) in v.iter().enumerate() {
                    if i > 0 {
                        out.push(',');
                    }
                    e.write(out);
                }
                out.push(']');
            }
            J::Obj(v) => {
                out.push('{');
                for (i, (k, e)) in v.iter().enumerate() {
                    if i > 0 {
                        out.push(',');
                    }
                    out.push('"');
                    out.push_str(k);
                    out.push_str("\":");
                    e.write(out);
                }
                out.push('}');
            }
        }
    }
}

// ---------------------------------------------------------------- helpers
thread_local! { static CNAME: std::cell::RefCell<String> = std::cell::RefCell::new(String::new()); }
// `crate::` -> `<crate name>::` so that paths are the same from every crate.
fn fixc(x: String) -> String {
    if !x.contains("crate::") {
        return x;
    }
    let name = CNAME.with(|c| c.borrow().clone());
    let mut out = String::with_capacity(x.len() + 16);
    let bytes = x.as_bytes();
    let mut i = 0;
    while i < bytes.len() {
        if x[i..].starts_with("crate::")
            && (i == 0 || !(bytes[i - 1].is_ascii_alphanumeric() || bytes[i - 1] == b'_'))
        {
            out.push_str(&name);
            out.push_str("::");
            i += 7;
        } else {
            let ch = x[i..].chars().next().unwrap();
            out.push(ch);
            i += ch.len_utf8();
        }
    }
    out
}
fn path_of(tcx: TyCtxt<'_>, did: DefId) -> String {
    fixc(with_crate_prefix!(with_no_trimmed_paths!(tcx.def_path_str(did))))
}
fn ty_str(ty: Ty<'_>) -> String {
    fixc(with_crate_prefix!(with_no_trimmed_paths!(ty.to_string())))
}
fn span_json(tcx: TyCtxt<'_>, sp: Span) -> (J, J) {
    // (location of the outermost call site, macro backtrace names innermost first)
    let sm = tcx.sess.source_map();
    let cs = sp.source_callsite();
    let loc = sm.lookup_char_pos(cs.lo());
    let fname = match &loc.file.name {
        rustc_span::FileName::Real(r) => match r.local_path() {
            Some(p) => p.display().to_string(),
            None => format!("{:?}", loc.file.name),
        },
        other => format!("{:?}", other),
    };
    let at = format!("{}:{}:{}", fname, loc.line, loc.col.0 + 1);
    let mut exps = vec![];
    for e in sp.macro_backtrace() {
        let name = match e.kind {
            rustc_span::ExpnKind::Macro(_, sym) => sym.to_string(),
            rustc_span::ExpnKind::Desugaring(d) => format!("desugar:{:?}", d),
            rustc_span::ExpnKind::AstPass(p) => format!("astpass:{:?}", p),
            rustc_span::ExpnKind::Root => "root".to_string(),
        };
        exps.push(s(name));
    }
    (s(at), J::Arr(exps))
}

struct Cx<'tcx> {
    tcx: TyCtxt<'tcx>,
    env: TypingEnv<'tcx>,
    mir: &'tcx Body<'tcx>,
}

impl<'tcx> Cx<'tcx> {
    fn place(&self, p: &Place<'tcx>) -> J {
        let mut proj = vec![];
        for e in p.projection.iter() {
            proj.push(match e {
                ProjectionElem::Deref => J::Arr(vec![s("deref")]),
                ProjectionElem::Field(f, ty) => {
                    J::Arr(vec![s("field"), n(f.as_usize()), s(ty_str(ty))])
                }
                ProjectionElem::Index(l) => J::Arr(vec![s("index"), n(l.as_usize())]),
                ProjectionElem::ConstantIndex { offset, min_length, from_end } => {
                    J::Arr(vec![s("cindex"), n(offset), n(min_length), J::Bool(from_end)])
                }
                ProjectionElem::Subslice { from, to, from_end } => {
                    J::Arr(vec![s("subslice"), n(from), n(to), J::Bool(from_end)])
                }
                ProjectionElem::Downcast(name, idx) => J::Arr(vec![
                    s("downcast"),
                    n(idx.as_usize()),
                    match name {
                        Some(x) => s(x.to_string()),
                        None => J::Null,
                    },
                ]),
                other => J::Arr(vec![s("other"), s(format!("{:?}", other))]),
            });
        }
        J::Obj(vec![("l", n(p.local.as_usize())), ("p", J::Arr(proj))])
    }

    fn generic_args(&self, args: ty::GenericArgsRef<'tcx>) -> J {
        let mut v = vec![];
        for a in args.iter() {
            match a.kind() {
                GenericArgKind::Type(t) => v.push(self.ty_json(t)),
                GenericArgKind::Lifetime(_) => {}
                GenericArgKind::Const(c) => v.push(s(format!("const {:?}", c))),
            }
        }
        J::Arr(v)
    }

    // Types that matter as callees (closures / fn items) are expanded.
    fn ty_json(&self, t: Ty<'tcx>) -> J {
        match t.kind() {
            ty::Closure(did, _) => J::Obj(vec![("closure", s(path_of(self.tcx, *did)))]),
            ty::FnDef(did, args) => J::Obj(vec![
                ("fndef", s(path_of(self.tcx, *did))),
                ("args", self.generic_args(args)),
            ]),
            ty::Ref(_, inner, _) => match inner.kind() {
                ty::Closure(did, _) => J::Obj(vec![("closure", s(path_of(self.tcx, *did)))]),
                _ => s(ty_str(t)),
            },
            _ => s(ty_str(t)),
        }
    }

    fn constant(&self, c: &Const<'tcx>) -> J {
        let ty = c.ty();
        let mut o: Vec<(&'static str, J)> = vec![("k", s("const")), ("ty", s(ty_str(ty)))];
        if let ty::FnDef(did, args) = ty.kind() {
            o.push(("fn", s(path_of(self.tcx, *did))));
            o.push(("args", self.generic_args(args)));
            // a function item used as a value (`.map(u32::try_from)`): resolve a trait method to its impl
            if let Ok(Some(inst)) = Instance::try_resolve(self.tcx, self.env, *did, args) {
                o.push(("resolved", s(path_of(self.tcx, inst.def_id()))));
            }
            return J::Obj(o);
        }
        // which item does an unevaluated constant name?
        if let Const::Unevaluated(uv, _) = c {
            o.push(("item", s(path_of(self.tcx, uv.def))));
            if let Some(p) = uv.promoted {
                o.push(("promoted", n(p.as_usize())));
            }
        }
        let is_scalarish = ty.is_integral()
            || ty.is_bool()
            || ty.is_char()
            || ty.is_floating_point()
            || ty.is_enum()
            || matches!(ty.kind(), ty::Adt(..));
        if is_scalarish {
            if let Some(si) = c.try_eval_scalar_int(self.tcx, self.env) {
                let size = si.size();
                let bits = si.to_bits(size);
                o.push(("bits", s(bits.to_string())));
                if ty.is_signed() {
                    o.push(("int", s(si.to_int(size).to_string())));
                }
                return J::Obj(o);
            }
        }
        // &str / &[u8]
        if let ty::Ref(_, inner, _) = ty.kind() {
            if inner.is_str() || matches!(inner.kind(), ty::Slice(_)) {
                if let Ok(v) = c.eval(self.tcx, self.env, rustc_span::DUMMY_SP) {
                    if let Some(bytes) = if matches!(v, mir::ConstValue::Slice { .. }) { v.try_get_slice_bytes_for_diagnostics(self.tcx) } else { None } {
                        if inner.is_str() {
                            o.push(("str", s(String::from_utf8_lossy(bytes).to_string())));
                        } else {
                            o.push(("bytes", J::Arr(bytes.iter().map(|b| n(*b)).collect())));
                        }
                        return J::Obj(o);
                    }
                }
            }
        }
        if let Ok(v) = c.eval(self.tcx, self.env, rustc_span::DUMMY_SP) {
            match v {
                ConstValue::ZeroSized => o.push(("zst", J::Bool(true))),
                ConstValue::Scalar(sc) => o.push(("scalar", s(format!("{:?}", sc)))),
                _ => {
                    if let Some(j) = self.destructure(v, ty, 0) {
                        o.push(("value", j));
                    } else {
                        o.push(("dbg", s(format!("{:?}", c))));
                    }
                }
            }
        } else {
            o.push(("dbg", s(format!("{:?}", c))));
        }
        J::Obj(o)
    }

    // Aggregate constants (tuples / structs / enums) as a tree of scalars.
    fn destructure(&self, v: ConstValue, ty: Ty<'tcx>, depth: usize) -> Option<J> {
        if depth > 4 {
            return None;
        }
        if let ConstValue::Scalar(mir::interpret::Scalar::Int(si)) = v {
            let size = si.size();
            return Some(J::Obj(vec![("ty", s(ty_str(ty))), ("bits", s(si.to_bits(size).to_string()))]));
        }
        if !matches!(ty.kind(), ty::Adt(..) | ty::Tuple(..) | ty::Array(..)) {
            return None;
        }
        let d = self.tcx.try_destructure_mir_constant_for_user_output(v, ty)?;
        let mut fields = vec![];
        for (fv, fty) in d.fields.iter() {
            match self.destructure(*fv, *fty, depth + 1) {
                Some(j) => fields.push(j),
                None => fields.push(J::Obj(vec![("ty", s(ty_str(*fty))), ("unknown", J::Bool(true))])),
            }
        }
        let mut o: Vec<(&'static str, J)> = vec![("ty", s(ty_str(ty)))];
        if let Some(vi) = d.variant {
            o.push(("variant", n(vi.as_usize())));
            if let ty::Adt(adt, _) = ty.kind() {
                o.push(("vname", s(adt.variant(vi).name.to_string())));
            }
        }
        o.push(("fields", J::Arr(fields)));
        Some(J::Obj(o))
    }

    fn operand(&self, op: &Operand<'tcx>) -> J {
        match op {
            Operand::Copy(p) => J::Obj(vec![("k", s("copy")), ("pl", self.place(p))]),
            Operand::Move(p) => J::Obj(vec![("k", s("move")), ("pl", self.place(p))]),
            Operand::Constant(c) => self.constant(&c.const_),
            #[allow(unreachable_patterns)]
            other => J::Obj(vec![("k", s("otherop")), ("dbg", s(format!("{:?}", other)))]),
        }
    }

    fn binop(&self, b: BinOp) -> &'static str {
        match b {
            BinOp::Add => "Add",
            BinOp::AddUnchecked => "AddUnchecked",
            BinOp::AddWithOverflow => "AddWithOverflow",
            BinOp::Sub => "Sub",
            BinOp::SubUnchecked => "SubUnchecked",
            BinOp::SubWithOverflow => "SubWithOverflow",
            BinOp::Mul => "Mul",
            BinOp::MulUnchecked => "MulUnchecked",
            BinOp::MulWithOverflow => "MulWithOverflow",
            BinOp::Div => "Div",
            BinOp::Rem => "Rem",
            BinOp::BitXor => "BitXor",
            BinOp::BitAnd => "BitAnd",
            BinOp::BitOr => "BitOr",
            BinOp::Shl => "Shl",
            BinOp::ShlUnchecked => "ShlUnchecked",
            BinOp::Shr => "Shr",
            BinOp::ShrUnchecked => "ShrUnchecked",
            BinOp::Eq => "Eq",
            BinOp::Lt => "Lt",
            BinOp::Le => "Le",
            BinOp::Ne => "Ne",
            BinOp::Ge => "Ge",
            BinOp::Gt => "Gt",
            BinOp::Cmp => "Cmp",
            BinOp::Offset => "Offset",
        }
    }

    fn rvalue(&self, rv: &Rvalue<'tcx>) -> J {
        match rv {
            Rvalue::Use(op, ..) => J::Obj(vec![("k", s("use")), ("op", self.operand(op))]),
            Rvalue::Ref(_, bk, p) => J::Obj(vec![
                ("k", s("ref")),
                ("mut", J::Bool(matches!(bk, mir::BorrowKind::Mut { .. }))),
                ("pl", self.place(p)),
            ]),
            Rvalue::RawPtr(k, p) => J::Obj(vec![
                ("k", s("rawptr")),
                ("kind", s(format!("{:?}", k))),
                ("pl", self.place(p)),
            ]),
            Rvalue::Cast(kind, op, ty) => {
                let from = op.ty(self.body(), self.tcx);
                let kname = match kind {
                    CastKind::IntToInt => "IntToInt".to_string(),
                    CastKind::Transmute => "Transmute".to_string(),
                    other => format!("{:?}", other),
                };
                J::Obj(vec![
                    ("k", s("cast")),
                    ("kind", s(kname)),
                    ("op", self.operand(op)),
                    ("from", s(ty_str(from))),
                    ("to", s(ty_str(*ty))),
                ])
            }
            Rvalue::BinaryOp(b, ops) => J::Obj(vec![
                ("k", s("binop")),
                ("op", s(self.binop(*b))),
                ("a", self.operand(&ops.0)),
                ("b", self.operand(&ops.1)),
                ("ty", s(ty_str(ops.0.ty(self.body(), self.tcx)))),
            ]),
            Rvalue::UnaryOp(u, op) => J::Obj(vec![
                ("k", s("unop")),
                (
                    "op",
                    s(match u {
                        UnOp::Not => "Not",
                        UnOp::Neg => "Neg",
                        UnOp::PtrMetadata => "PtrMetadata",
                    }),
                ),
                ("a", self.operand(op)),
            ]),
            Rvalue::Discriminant(p) => {
                let pty = p.ty(self.body(), self.tcx).ty;
                J::Obj(vec![("k", s("discr")), ("pl", self.place(p)), ("ty", s(ty_str(pty)))])
            }
            Rvalue::Aggregate(kind, fields) => {
                let mut o: Vec<(&'static str, J)> = vec![("k", s("agg"))];
                match &**kind {
                    AggregateKind::Adt(did, vidx, args, _, _) => {
                        let adt = self.tcx.adt_def(*did);
                        o.push(("adt", s(path_of(self.tcx, *did))));
                        o.push(("variant", n(vidx.as_usize())));
                        o.push(("vname", s(adt.variant(*vidx).name.to_string())));
                        o.push(("args", self.generic_args(args)));
                    }
                    AggregateKind::Tuple => o.push(("tuple", J::Bool(true))),
                    AggregateKind::Array(t) => o.push(("array", s(ty_str(*t)))),
                    AggregateKind::Closure(did, _) => {
                        o.push(("closure", s(path_of(self.tcx, *did))))
                    }
                    other => o.push(("otheragg", s(format!("{:?}", other)))),
                }
                o.push(("fields", J::Arr(fields.iter().map(|f| self.operand(f)).collect())));
                J::Obj(o)
            }
            Rvalue::CopyForDeref(p) => J::Obj(vec![
                ("k", s("use")),
                ("op", J::Obj(vec![("k", s("copy")), ("pl", self.place(p))])),
            ]),
            Rvalue::Repeat(op, c) => J::Obj(vec![
                ("k", s("repeat")),
                ("op", self.operand(op)),
                ("n", s(format!("{:?}", c))),
            ]),
            other => J::Obj(vec![("k", s("other")), ("dbg", s(format!("{:?}", other)))]),
        }
    }

    fn body(&self) -> &'tcx Body<'tcx> {
        self.mir
    }

    fn block(&self, bb: &BasicBlockData<'tcx>) -> J {
        let mut stmts = vec![];
        for st in &bb.statements {
            let (at, exp) = span_json(self.tcx, st.source_info.span);
            match &st.kind {
                StatementKind::Assign(b) => {
                    let (pl, rv) = &**b;
                    stmts.push(J::Obj(vec![
                        ("k", s("assign")),
                        ("lhs", self.place(pl)),
                        ("rv", self.rvalue(rv)),
                        ("at", at),
                        ("exp", exp),
                    ]));
                }
                StatementKind::SetDiscriminant { place, variant_index } => {
                    stmts.push(J::Obj(vec![
                        ("k", s("setdiscr")),
                        ("lhs", self.place(place)),
                        ("variant", n(variant_index.as_usize())),
                        ("at", at),
                    ]));
                }
                StatementKind::Intrinsic(i) => {
                    stmts.push(J::Obj(vec![
                        ("k", s("intrinsic")),
                        ("dbg", s(format!("{:?}", i))),
                        ("at", at),
                    ]));
                }
                _ => {}
            }
        }
        let term = bb.terminator();
        let (at, exp) = span_json(self.tcx, term.source_info.span);
        let mut t: Vec<(&'static str, J)> = vec![];
        match &term.kind {
            TerminatorKind::Goto { target } => {
                t.push(("k", s("goto")));
                t.push(("target", n(target.as_usize())));
            }
            TerminatorKind::SwitchInt { discr, targets } => {
                t.push(("k", s("switch")));
                t.push(("discr", self.operand(discr)));
                t.push(("ty", s(ty_str(discr.ty(self.body(), self.tcx)))));
                let mut cases = vec![];
                for (v, bb) in targets.iter() {
                    cases.push(J::Arr(vec![s(v.to_string()), n(bb.as_usize())]));
                }
                t.push(("cases", J::Arr(cases)));
                t.push(("otherwise", n(targets.otherwise().as_usize())));
            }
            TerminatorKind::Return => t.push(("k", s("return"))),
            TerminatorKind::Unreachable => t.push(("k", s("unreachable"))),
            TerminatorKind::UnwindResume => t.push(("k", s("resume"))),
            TerminatorKind::UnwindTerminate(_) => t.push(("k", s("terminate"))),
            TerminatorKind::Drop { place, target, unwind, .. } => {
                t.push(("k", s("drop")));
                t.push(("pl", self.place(place)));
                t.push(("ty", s(ty_str(place.ty(self.body(), self.tcx).ty))));
                t.push(("target", n(target.as_usize())));
                if let mir::UnwindAction::Cleanup(bb) = unwind {
                    t.push(("unwind", n(bb.as_usize())));
                }
            }
            TerminatorKind::Assert { cond, expected, msg, target, unwind } => {
                t.push(("k", s("assert")));
                t.push(("cond", self.operand(cond)));
                t.push(("expected", J::Bool(*expected)));
                let kind = match &**msg {
                    mir::AssertKind::BoundsCheck { .. } => "BoundsCheck".to_string(),
                    mir::AssertKind::Overflow(op, ..) => format!("Overflow({})", self.binop(*op)),
                    mir::AssertKind::OverflowNeg(_) => "OverflowNeg".to_string(),
                    mir::AssertKind::DivisionByZero(_) => "DivisionByZero".to_string(),
                    mir::AssertKind::RemainderByZero(_) => "RemainderByZero".to_string(),
                    other => {
                        let d = format!("{:?}", other);
                        d.split(|c: char| !c.is_alphanumeric()).next().unwrap_or("").to_string()
                    }
                };
                t.push(("kind", s(kind)));
                t.push(("target", n(target.as_usize())));
                if let mir::UnwindAction::Cleanup(bb) = unwind {
                    t.push(("unwind", n(bb.as_usize())));
                }
            }
            TerminatorKind::Call { func, args, destination, target, unwind, fn_span, .. } => {
                t.push(("k", s("call")));
                t.push(("fn_at", span_json(self.tcx, *fn_span).0));
                let fty = func.ty(self.body(), self.tcx);
                match fty.kind() {
                    ty::FnDef(did, gargs) => {
                        t.push(("callee", s(path_of(self.tcx, *did))));
                        t.push(("gargs", self.generic_args(gargs)));
                        let krate = self.tcx.crate_name(did.krate).to_string();
                        t.push(("callee_crate", s(krate)));
                        // resolve through traits where possible
                        if let Ok(Some(inst)) =
                            Instance::try_resolve(self.tcx, self.env, *did, gargs)
                        {
                            let rd = inst.def_id();
                            t.push(("resolved", s(path_of(self.tcx, rd))));
                            t.push(("rargs", self.generic_args(inst.args)));
                            t.push(("rkind", s(match inst.def {
                                ty::InstanceKind::Item(_) => "item",
                                ty::InstanceKind::Virtual(..) => "virtual",
                                ty::InstanceKind::Intrinsic(_) => "intrinsic",
                                ty::InstanceKind::ClosureOnceShim { .. } => "closure_once_shim",
                                ty::InstanceKind::FnPtrShim(..) => "fnptr_shim",
                                ty::InstanceKind::DropGlue(..) => "drop_glue",
                                ty::InstanceKind::CloneShim(..) => "clone_shim",
                                _ => "othershim",
                            })));
                        }
                    }
                    _ => {
                        t.push(("callee_op", self.operand(func)));
                        t.push(("callee_ty", s(ty_str(fty))));
                    }
                }
                t.push(("args", J::Arr(args.iter().map(|a| self.operand(&a.node)).collect())));
                t.push((
                    "argtys",
                    J::Arr(
                        args.iter().map(|a| self.ty_json(a.node.ty(self.body(), self.tcx))).collect(),
                    ),
                ));
                t.push(("dest", self.place(destination)));
                match target {
                    Some(bb) => t.push(("target", n(bb.as_usize()))),
                    None => t.push(("target", J::Null)),
                }
                if let mir::UnwindAction::Cleanup(bb) = unwind {
                    t.push(("unwind", n(bb.as_usize())));
                }
            }
            TerminatorKind::FalseEdge { real_target, .. } => {
                t.push(("k", s("goto")));
                t.push(("target", n(real_target.as_usize())));
            }
            TerminatorKind::FalseUnwind { real_target, .. } => {
                t.push(("k", s("goto")));
                t.push(("target", n(real_target.as_usize())));
            }
            other => {
                t.push(("k", s("otherterm")));
                t.push(("dbg", s(format!("{:?}", other))));
            }
        }
        t.push(("at", at));
        t.push(("exp", exp));
        J::Obj(vec![
            ("cleanup", J::Bool(bb.is_cleanup)),
            ("stmts", J::Arr(stmts)),
            ("term", J::Obj(t)),
        ])
    }
}

fn vis_str(tcx: TyCtxt<'_>, did: DefId) -> String {
    match tcx.def_kind(did) {
        DefKind::Fn | DefKind::AssocFn | DefKind::Struct | DefKind::Enum | DefKind::Field
        | DefKind::Const { .. } | DefKind::AssocConst { .. } | DefKind::Static { .. } => {
            match tcx.visibility(did) {
                ty::Visibility::Public => "pub".to_string(),
                ty::Visibility::Restricted(m) => {
                    if m.is_crate_root() {
                        "crate".to_string()
                    } else {
                        format!("in {}", path_of(tcx, m))
                    }
                }
            }
        }
        _ => "n/a".to_string(),
    }
}

fn dump_body<'tcx>(tcx: TyCtxt<'tcx>, did: DefId) -> J {
    let body = tcx.optimized_mir(did);
    let cx = Cx { tcx, env: TypingEnv::post_analysis(tcx, did), mir: body };
    let kind = tcx.def_kind(did);
    let mut o: Vec<(&'static str, J)> = vec![];
    o.push(("path", s(path_of(tcx, did))));
    o.push(("dp", s(format!("{}{}", tcx.crate_name(LOCAL_CRATE), tcx.def_path(did).to_string_no_crate_verbose()))));
    o.push(("kind", s(format!("{:?}", kind))));
    o.push(("vis", s(vis_str(tcx, did))));
    let (at, exp) = span_json(tcx, body.span);
    o.push(("at", at));
    o.push(("exp", exp));
    o.push(("nargs", n(body.arg_count)));
    // parent impl self type / trait
    if let Some(parent) = tcx.opt_parent(did) {
        if let DefKind::Impl { of_trait } = tcx.def_kind(parent) {
            let self_ty = tcx.type_of(parent).instantiate_identity().skip_norm_wip();
            o.push(("self_ty", s(ty_str(self_ty))));
            if of_trait {
                let tr = tcx.impl_trait_ref(parent).instantiate_identity().skip_norm_wip();
                o.push(("trait", s(path_of(tcx, tr.def_id))));
                o.push(("trait_ref", s(fixc(with_crate_prefix!(with_no_trimmed_paths!(format!("{:?}", tr)))))));
            }
        }
        if matches!(kind, DefKind::Closure) {
            o.push(("parent", s(path_of(tcx, tcx.typeck_root_def_id(did)))));
        }
    }
    // locals
    let mut names: Vec<Option<String>> = vec![None; body.local_decls.len()];
    for vdi in &body.var_debug_info {
        if let mir::VarDebugInfoContents::Place(p) = &vdi.value {
            if p.projection.is_empty() {
                names[p.local.as_usize()] = Some(vdi.name.to_string());
            }
        }
    }
    let mut locals = vec![];
    for (i, d) in body.local_decls.iter().enumerate() {
        locals.push(J::Obj(vec![
            ("ty", cx.ty_json(d.ty)),
            (
                "name",
                match &names[i] {
                    Some(x) => s(x.clone()),
                    None => J::Null,
                },
            ),
        ]));
    }
    o.push(("locals", J::Arr(locals)));
    let mut blocks = vec![];
    for bb in body.basic_blocks.iter() {
        blocks.push(cx.block(bb));
    }
    o.push(("blocks", J::Arr(blocks)));
    // promoted constants (e.g. `&Type::Float(Some(64), IsConst::True)`)
    let mut proms = vec![];
    for pb in tcx.promoted_mir(did).iter() {
        let pcx = Cx { tcx, env: TypingEnv::post_analysis(tcx, did), mir: pb };
        let mut pl = vec![];
        for d in pb.local_decls.iter() {
            pl.push(J::Obj(vec![("ty", pcx.ty_json(d.ty)), ("name", J::Null)]));
        }
        let mut pbl = vec![];
        for bb in pb.basic_blocks.iter() {
            pbl.push(pcx.block(bb));
        }
        proms.push(J::Obj(vec![("locals", J::Arr(pl)), ("blocks", J::Arr(pbl))]));
    }
    o.push(("promoted", J::Arr(proms)));
    J::Obj(o)
}

fn dump_crate(tcx: TyCtxt<'_>, out_dir: &str) {
    let cname = tcx.crate_name(LOCAL_CRATE).to_string();
    CNAME.with(|c| *c.borrow_mut() = cname.clone());
    let mut bodies = vec![];
    let mut consts = vec![];
    let mut adts = vec![];
    let mut fns = vec![];

    for ldid in tcx.hir_body_owners() {
        let did = ldid.to_def_id();
        match tcx.def_kind(did) {
            DefKind::Fn | DefKind::AssocFn | DefKind::Closure => {
                bodies.push(dump_body(tcx, did));
            }
            DefKind::Const { .. } | DefKind::AssocConst { .. } | DefKind::Static { .. } => {
                // only monomorphic items can be evaluated
                if tcx.generics_of(did).requires_monomorphization(tcx) {
                    continue;
                }
                let ty = tcx.type_of(did).instantiate_identity().skip_norm_wip();
                let mut o: Vec<(&'static str, J)> =
                    vec![("path", s(path_of(tcx, did))), ("ty", s(ty_str(ty))), ("vis", s(vis_str(tcx, did)))];
                if !matches!(tcx.def_kind(did), DefKind::Static { .. }) {
                    if let Ok(v) = tcx.const_eval_poly(did) {
                        match v {
                            ConstValue::Scalar(mir::interpret::Scalar::Int(si)) => {
                                let size = si.size();
                                o.push(("bits", s(si.to_bits(size).to_string())));
                            }
                            ConstValue::ZeroSized => o.push(("zst", J::Bool(true))),
                            other => {
                                // (try_get_slice_bytes_for_diagnostics is a compiler bug!() on anything but a slice value)
                                if let (true, Some(bytes)) = (matches!(other, ConstValue::Slice { .. }), if matches!(other, ConstValue::Slice { .. }) { other.try_get_slice_bytes_for_diagnostics(tcx) } else { None }) {
                                    o.push(("str", s(String::from_utf8_lossy(bytes).to_string())));
                                } else {
                                    o.push(("indirect", J::Bool(true)));
                                }
                            }
                        }
                    }
                }
                consts.push(J::Obj(o));
            }
            _ => {}
        }
    }

    for ldid in tcx.hir_crate_items(()).definitions() {
        let did = ldid.to_def_id();
        match tcx.def_kind(did) {
            DefKind::Struct | DefKind::Enum | DefKind::Union => {
                let adt = tcx.adt_def(did);
                let mut variants = vec![];
                for (vidx, v) in adt.variants().iter_enumerated() {
                    let discr = if adt.is_enum() {
                        s(adt.discriminant_for_variant(tcx, vidx).val.to_string())
                    } else {
                        J::Null
                    };
                    let mut fields = vec![];
                    for f in v.fields.iter() {
                        let fty = tcx.type_of(f.did).instantiate_identity().skip_norm_wip();
                        fields.push(J::Obj(vec![
                            ("name", s(f.name.to_string())),
                            ("ty", s(ty_str(fty))),
                            ("vis", s(vis_str(tcx, f.did))),
                        ]));
                    }
                    variants.push(J::Obj(vec![
                        ("name", s(v.name.to_string())),
                        ("discr", discr),
                        ("fields", J::Arr(fields)),
                    ]));
                }
                adts.push(J::Obj(vec![
                    ("path", s(path_of(tcx, did))),
                    ("kind", s(format!("{:?}", tcx.def_kind(did)))),
                    ("vis", s(vis_str(tcx, did))),
                    ("variants", J::Arr(variants)),
                ]));
            }
            DefKind::Fn | DefKind::AssocFn => {
                let sig = tcx.fn_sig(did).instantiate_identity().skip_norm_wip();
                fns.push(J::Obj(vec![
                    ("path", s(path_of(tcx, did))),
                    ("vis", s(vis_str(tcx, did))),
                    ("sig", s(fixc(with_crate_prefix!(with_no_trimmed_paths!(format!("{:?}", sig)))))),
                ]));
            }
            _ => {}
        }
    }

    let root = J::Obj(vec![
        ("crate", s(cname.clone())),
        ("adts", J::Arr(adts)),
        ("consts", J::Arr(consts)),
        ("fns", J::Arr(fns)),
        ("bodies", J::Arr(bodies)),
    ]);
    let mut out = String::new();
    root.write(&mut out);
    let path = format!("{}/{}.json", out_dir, cname);
    let tmp = format!("{}.tmp.{}", path, std::process::id());
    std::fs::write(&tmp, out).expect("write facts");
    std::fs::rename(&tmp, &path).expect("rename facts");
}

struct Cb;
impl rustc_driver::Callbacks for Cb {
    fn after_analysis<'tcx>(
        &mut self,
        _compiler: &rustc_interface::interface::Compiler,
        tcx: TyCtxt<'tcx>,
    ) -> Compilation {
        let cname = tcx.crate_name(LOCAL_CRATE).to_string();
        if let Ok(out_dir) = std::env::var("OQ3FACTS_OUT") {
            if cname.starts_with("oq3_") {
                dump_crate(tcx, &out_dir);
            }
        }
        Compilation::Continue
    }
}

fn main() {
    let mut args: Vec<String> = std::env::args().collect();
    // RUSTC_WORKSPACE_WRAPPER: argv[1] is the real rustc path.
    if args.len() > 1 && (args[1].ends_with("rustc") || args[1].contains("/rustc")) {
        args.remove(1);
    }
    rustc_driver::run_compiler(&args, &mut Cb);
}
