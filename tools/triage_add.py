#!/usr/bin/env python3
"""Developer tool (never run by a check): after manual triage, record the
current violations of <ID> whose key starts with <prefix> as known findings.
usage: triage_add.py <ID> <key-prefix> <what> <witness>"""
import json, os, subprocess, sys, glob
V = os.path.dirname(os.path.dirname(os.path.abspath(__file__)))
pid, prefix, what, witness = sys.argv[1:5]
subprocess.run([os.path.join(V, "bin", "check"), pid, "quick"], capture_output=True)
kf = json.load(open(os.path.join(V, "known_findings.json")))
have = {(k["property"], k["key"]) for k in kf}
n = 0
for f in sorted(glob.glob(os.path.join(V, "out", pid, "*.json"))):
    o = json.load(open(f)).get("obligation")
    if not o or not o["key"].startswith(prefix):
        continue
    if (pid, o["key"]) in have:
        continue
    kf.append({"property": pid, "key": o["key"], "status": "known", "what": what, "witness": witness, "detail_at_triage": o["detail"][:400]})
    n += 1
json.dump(kf, open(os.path.join(V, "known_findings.json"), "w"), indent=1, ensure_ascii=False)
print("added", n)
