#!/usr/bin/env python3
"""Regenerates /verif/MANIFEST.json from tools/claims.json (kept small and explicit)."""
import json, os
V = os.path.dirname(os.path.dirname(os.path.abspath(__file__)))
claims = json.load(open(os.path.join(V, "tools", "claims.json")))
props = [json.loads(l) for l in open(os.path.join(V, "properties.jsonl"))]
checks, na = [], []
for p in props:
    c = claims.get(p["id"])
    if c and c.get("claimed"):
        checks.append({
            "property_id": p["id"],
            "quick_cmd": f"/verif/bin/check {p['id']} quick",
            "thorough_cmd": f"/verif/bin/check {p['id']} thorough",
            "evidence_file": f"/verif/evidence/{p['id']}.json",
            "replay_cmd_template": f"/verif/bin/check {p['id']} --replay {{path}}",
            "engine": "oq3facts+analysis",
            "level_claimed": {"category": "other", "text": c["level_text"], "design_ref": c.get("design_ref", f"DESIGN.md section 3, {p['id']}")},
            "level_note": c["level_note"],
            "technique": c["technique"],
        })
    else:
        na.append({"property_id": p["id"], "reason": (c or {}).get("reason", "not yet claimed: rules for this property are still being built (see DESIGN.md section 7)")})
m = {
    "version": 1,
    "setup_cmd": "cd /verif/driver && CARGO_NET_OFFLINE=true cargo build --release --offline",
    "hooks": {"guard": "qiskit_openqasm3_parser_verif", "enable": "none needed: the analyses read the ordinary dev-profile MIR of /repo (no hook commits)", "baseline_off_cmd": "cd /repo && cargo test --workspace --no-fail-fast --offline", "source_commits": [], "add_only": True},
    "engines": [
        {"name": "oq3facts", "path": "/verif/driver", "serves_properties": [c["property_id"] for c in checks], "kind_free_text": "rustc_private driver (nightly) injected with RUSTC_WORKSPACE_WRAPPER under cargo check: dumps type-checked, drop-elaborated MIR with resolved callees, evaluated constants, ADTs, spans and macro provenance of /repo's current working tree as JSON"},
        {"name": "analysis", "path": "/verif/analysis", "serves_properties": [c["property_id"] for c in checks], "kind_free_text": "Python static-analysis kernel over the MIR facts: CFG dominators/post-dominators/control dependence, call graph, who-may-write field rules, provenance slices, free-term path enumeration for decision tables, token-kind abstract interpretation of the grammar; one rule module per property"},
    ],
    "checks": checks,
    "not_applicable": na,
    "notes": "Static analysis only: no check executes repository code. See DESIGN.md. Known findings: /verif/known_findings.json.",
}
json.dump(m, open(os.path.join(V, "MANIFEST.json"), "w"), indent=1)
print("claimed", [c["property_id"] for c in checks], "n/a", len(na))
