#!/usr/bin/env python3
"""Developer tool: freeze, for every (grammar function, keyword/punctuation token kind) pair, whether the token is
consumed while the innermost open marker is one handed in by the caller ("passed": the token becomes a child of the
caller-started node, e.g. the statement node) or a marker started locally (spec/token_parent.json)."""
import json, os, subprocess, sys
V = os.path.dirname(os.path.dirname(os.path.abspath(__file__)))
sys.path.insert(0, os.path.join(V, "analysis")); sys.path.insert(0, os.path.join(V, "analysis", "rules"))
from kernel import Program
import grammar_run
facts = subprocess.run([os.path.join(V, "bin", "curfacts")], capture_output=True, text=True).stdout.strip()
G = grammar_run.get(Program(facts))
GENERIC = {"IDENT", "HARDWAREIDENT", "INT_NUMBER", "FLOAT_NUMBER", "BIT_STRING", "STRING", "BYTE", "ERROR", "EOF", "ANNOTATION", "PRAGMA", "VERSION_STRING"}
out = [{"fn": fn, "kind": k, "parent": v[0]} for (fn, k), v in sorted(G.token_parent.items()) if fn.startswith("oq3_parser::grammar::") and "{closure" not in fn and k not in GENERIC and len(v) == 1]
json.dump(out, open(os.path.join(V, "spec", "token_parent.json"), "w"), indent=0)
print(len(out), "pairs")
