#!/usr/bin/env python3
"""Developer tool (never run by a check): runs the witness programs of notes/recon/c03_witnesses.txt through a
throw-away probe binary (path given as argv[1]) against the real code, maps each observed panic location to the
inventory site key of the current tree and records it as a known finding of C03 with that witness."""
import json, os, re, subprocess, sys
V = os.path.dirname(os.path.dirname(os.path.abspath(__file__)))
sys.path.insert(0, os.path.join(V, "analysis")); sys.path.insert(0, os.path.join(V, "analysis", "rules"))
from kernel import Program
import inventory, framework, C03
probe = sys.argv[1]
wit = os.path.join(V, "notes", "recon", "c03_witnesses.txt")
out = subprocess.run([probe, "batch", wit], capture_output=True, text=True, timeout=300).stderr
cur, hits = None, {}
for line in out.splitlines():
    if line.startswith("=== "):
        cur = line[4:]
    m = re.search(r"PANIC at (\S+):(\d+):(\d+) : (.*)", line)
    if m and cur:
        hits.setdefault((m.group(1), int(m.group(2)), int(m.group(3))), []).append((cur, m.group(4)[:80]))
d, th, hit, err = framework.get_facts()
prog = Program(d)
roots, cone, fns = C03.cone_fns(prog)
sites = inventory.sites_in(prog, fns)
kf = json.load(open(os.path.join(V, "known_findings.json")))
have = {(k["property"], k["key"]) for k in kf}
n = 0
def locs(s):
    """candidate (file, line, col) locations of a site: the call's method-name span and the statement span"""
    b = prog.body(s["fn"])
    t_ = b.blocks[s["bb"]].term
    out = []
    for a in (t_.get("fn_at"), t_.get("at")):
        if a:
            f_, l_, c_ = a.rsplit("/", 1)[-1].split(":")
            out.append((f_, int(l_), int(c_)))
    return out
matched = set()
for s in sites:
    for (hf, hl, hc), ws in hits.items():
        if (hf, hl, hc) in locs(s):
            matched.add((hf, hl, hc))
            key = "C03.1-inventory:" + s["key"]
            if ("C03", key) in have:
                continue
            have.add(("C03", key))
            kf.append({"property": "C03", "key": key, "status": "known",
                       "what": f"reachable panic on a diagnostic-free parse ({s['descr']}): {ws[0][1]}",
                       "witness": "; ".join(sorted(set(repr(w[0]) for w in ws))[:4]) + " -> panics at " + hf + " in " + inventory.ishort(s["fn"]) + " (confirmed with the probe binary)"})
            n += 1
json.dump(kf, open(os.path.join(V, "known_findings.json"), "w"), indent=1, ensure_ascii=False)
print("added", n, "of", len(hits), "panic locations")
unm = [(k, v[0][0]) for k, v in hits.items() if k not in matched]
print("unmatched locations:", unm)
