#!/usr/bin/env python3
"""Developer tool: freeze, for every call edge of the grammar into an expression parser (expr, expr_bp, expr_no_struct,
expr_or_range_expr, lhs), which specification expression-start tokens reach that call site today
(spec/expr_edges.json).  C04 then requires that no edge loses one of them (an expression-initial token diverted to a
more special parser truncates the expression)."""
import json, os, subprocess, sys
V = os.path.dirname(os.path.dirname(os.path.abspath(__file__)))
sys.path.insert(0, os.path.join(V, "analysis")); sys.path.insert(0, os.path.join(V, "analysis", "rules"))
from kernel import Program
import grammar_run, grammar_ai
facts = subprocess.run([os.path.join(V, "bin", "curfacts")], capture_output=True, text=True).stdout.strip()
prog = Program(facts)
G = grammar_run.get(prog)
spec = json.load(open(os.path.join(V, "spec", "expr_first.json")))["first"]
EX = ("::expressions::expr", "::expressions::expr_bp", "::expressions::expr_or_range_expr", "::expressions::expr_no_struct", "::expressions::lhs", "::expressions::expr_stmt")
from collections import defaultdict
per = defaultdict(list)
for (caller, callee, bb), mask in G.edge_first.items():
    if callee.endswith(EX):
        per[(caller, callee)].append((bb, mask))
out = []
for (caller, callee), lst in sorted(per.items()):
    for o, (bb, mask) in enumerate(sorted(lst)):
        toks = [k for k in spec if k in G.kdisc and mask & (1 << G.kdisc[k])]
        out.append({"caller": caller, "callee": callee, "ordinal": o, "admits": toks})
json.dump(out, open(os.path.join(V, "spec", "expr_edges.json"), "w"), indent=1)
print(len(out), "edges")
