#!/bin/bash
# Developer tool: run every check against each behaviour-preserving refactoring in selftest/benign/*.diff (scratch
# copies); anything printed besides the header lines is an alarm on code where the property holds.
cd /verif
for f in selftest/benign/*.diff; do
  echo "=== $(basename $f)"
  MUT_LINES=4 timeout 3000 bin/with_mutant /verif/$f C01 C02 C03 C04 C05 C06 C07 C08 C09 C10 C11 C12 C13 C14 C15 C16 C17 C18 C19 C20 2>&1 | grep -v "violations=0" | cut -c1-220
done
