#!/usr/bin/env python3
"""Developer tool: freeze the number of instances per rule, as evaluated on today's tree (evidence/*.json), into
spec/rule_floors.json.  The framework fails a check whose rule lost most of its instances (floor = 70% of today's
count, at least 1): a rule that matches nothing passes vacuously forever."""
import json, glob, math, os
V = os.path.dirname(os.path.dirname(os.path.abspath(__file__)))
out = {}
for f in sorted(glob.glob(os.path.join(V, "evidence", "C*.json"))):
    e = json.load(open(f))
    pr = e["coverage"].get("per_rule", {})
    out[e["property_id"]] = {r: max(1, math.floor(0.7 * v["total"])) for r, v in sorted(pr.items()) if r not in ("FLOOR", "ANCHOR", "AI-BUDGET", "RULE-INSTANCES") and not r.endswith("-premise") and v["total"] > 0}
json.dump(out, open(os.path.join(V, "spec", "rule_floors.json"), "w"), indent=1)
print({k: len(v) for k, v in out.items()})
