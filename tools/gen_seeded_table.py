#!/usr/bin/env python3
"""Developer tool: renders seeded/*/meta.json as the markdown table of DESIGN.md section 8.4 (between the markers)."""
import json, os, glob, re
V = os.path.dirname(os.path.dirname(os.path.abspath(__file__)))
rows = []
for d in sorted(glob.glob(os.path.join(V, "seeded", "*", "meta.json"))):
    m = json.load(open(d))
    name = os.path.basename(os.path.dirname(d))
    rows.append(f"| {name} | {m['breaks']} | {m['needs_to_manifest']} | {'yes' if m['detected_before_strengthening'] else '**no**'} | {', '.join(m['detected_by']) or '**none**'} | {'; '.join(m['rules']) or m.get('note','')[:160]} |")
n = len(rows)
nb = sum(1 for r in rows if '| yes |' in r)
und = [os.path.basename(os.path.dirname(d)) for d in sorted(glob.glob(os.path.join(V, "seeded", "*", "meta.json"))) if not json.load(open(d))["detected_by"]]
out = [f"{n} changes kept; {nb} were reported by the checks as they stood when the change arrived, {n - nb} were missed at first and led to the strengthening named in the last column; {n - len(und)} are reported now (thorough tier re-checks this on every run)" + (f"; NOT reported: {', '.join(und)} (see the note in its meta.json and 8.4a below)." if und else "."), "",
       "| change | what it breaks | needs to manifest | caught as first run | reported by | rules |", "|---|---|---|---|---|---|"] + rows
p = os.path.join(V, "DESIGN.md")
s = open(p).read()
a, b = "<!-- seeded-table:begin -->", "<!-- seeded-table:end -->"
if a in s:
    s = s[:s.index(a) + len(a)] + "\n" + "\n".join(out) + "\n" + s[s.index(b):]
    open(p, "w").write(s)
print(n, nb)
