#!/usr/bin/env python3
"""Developer tool (never run by a check): (re)generates spec/reviewed_sites.json
from the hand-written reasons below.  Every key is one panic-capable site that
was read and confirmed unreachable (or implied by a checked obligation)."""
import json, os
V = os.path.dirname(os.path.dirname(os.path.abspath(__file__)))
SIZE = "bounded by the input size (< 2^31 bytes, the stated bound)"
R = {}
def add(rule, keys, reason, callers=None):
    for k in keys:
        R[f"{rule}:{k}"] = {"reason": reason, **({"callers": callers} if callers else {})}

# ---------------- grammar cone (C01.3 / C01.6) -----------------
add("C01.3-PRE", ["parser::Parser::nth|assert:|0"],
    "assert!(PARSER_STEP_LIMIT.check(steps).is_ok(), \"the parser seems stuck\"): `steps` counts nth() calls since the last do_bump (reset there). Under PROGRESS (C01.2) every loop iteration and recursion cycle consumes a token, so the number of nth() calls between two consumptions is bounded by the loop-free code between them, far below 15_000_000.")
add("C01.6-arith", ["parser::Parser::nth|assert:Overflow(Add)|0"], "`steps + 1` on u32: the preceding limit check guarantees steps < 15_000_000.")
add("C01.6-arith", ["grammar::expressions::atom::array_expr|assert:Overflow(Add)|0"], "`n_exprs += 1` (u32) once per loop iteration; each iteration consumes >= 1 token (C01.2 PROGRESS for this loop) so n_exprs <= #tokens; " + SIZE)
add("C01.6-arith", ["grammar::params::_param_list_openqasm|assert:Overflow(Add)|0"], "`num_params += 1` (usize) once per loop iteration; each iteration consumes >= 1 token (C01.2 PROGRESS for this loop); " + SIZE)

# ---------------- lexer (C01.6-L) -----------------
L = "C01.6-inventory"
AT = ["lexer::advance_token"]
add(L, ["lexer::Cursor::block_comment|debug_assert:assertion failed: self.prev() == '/' && self.first() == '*'|0"], "called only from the `'/'` arm of advance_token under `self.first() == '*'`; prev is the '/' just bumped", ["oq3_lexer::Cursor::advance_token"])
add(L, ["lexer::Cursor::line_comment|debug_assert:assertion failed: self.prev() == '/' && self.first() == '/'|0"], "called only from the `'/'` arm of advance_token under `self.first() == '/'`", ["oq3_lexer::Cursor::advance_token"])
add(L, ["lexer::Cursor::whitespace|debug_assert:assertion failed: is_whitespace(self.prev())|0"], "called only from the arm `c if is_whitespace(c)` of advance_token; prev == c", ["oq3_lexer::Cursor::advance_token"])
add(L, ["lexer::Cursor::ident_or_unknown_prefix|debug_assert:assertion failed: is_id_start(self.prev())|0"], "callers: advance_token arms 'O' (no bump consumed yet unless have_openqasm bumped XID letters P,E,N,...: prev is then one of those letters, all XID_Start), `c if is_id_start(c)`, and pragma_or_ident_or_unknown_prefix (first char 'p', have_pragma bumps only the letters r,a,g,m,a which are XID_Start, or whitespace-terminated => returned Pragma instead)", ["oq3_lexer::Cursor::advance_token", "oq3_lexer::Cursor::pragma_or_ident_or_unknown_prefix"])
add(L, ["lexer::Cursor::number|debug_assert:assertion failed: '0' <= self.prev() && self.prev() <= '9'|0"], "called only from the arm `c @ '0'..='9'` of advance_token; prev == c", ["oq3_lexer::Cursor::advance_token"])
add(L, ["lexer::Cursor::float_with_no_leading_digit|debug_assert:assertion failed: self.first().is_ascii_digit()|0"], "called only from the '.' arm under `match self.first() { '0'..='9' => ...`", ["oq3_lexer::Cursor::advance_token"])
add(L, ["lexer::Cursor::eat_float_exponent|debug_assert:assertion failed: self.prev() == 'e' || self.prev() == 'E'|0"], "every call is preceded by `self.bump()` under `match self.first() { 'e' | 'E' => ...`", ["oq3_lexer::Cursor::number", "oq3_lexer::Cursor::float_with_no_leading_digit"])
add(L, ["lexer::Cursor::double_quoted_string|debug_assert:assertion failed: self.prev() == '\"'|0"], "called only from the '\"' arm of advance_token", ["oq3_lexer::Cursor::advance_token"])
add(L, ["lexer::Cursor::single_quoted_string|debug_assert:assertion failed: self.prev() == '\\''|0"], "called only from the '\\'' arm of advance_token", ["oq3_lexer::Cursor::advance_token"])
add(L, ["lexer::Cursor::block_comment|assert:Overflow(Add)|0"], "`depth += 1` (usize) once per nested `/*`, i.e. at most once per two input bytes; " + SIZE)
add(L, ["lexer::Cursor::block_comment|assert:Overflow(Sub)|0"], "`depth -= 1`: depth starts at 1, the loop breaks as soon as depth == 0, so depth >= 1 whenever the decrement is reached")
add(L, ["lexer::Cursor::double_quoted_string|assert:Overflow(Add)|0", "lexer::Cursor::single_quoted_string|assert:Overflow(Add)|0"], "`count_newlines += 1` (i32) once per '\\n' byte; " + SIZE + " (this is why the bound is 2^31)")
add(L, ["lexer::cursor::Cursor::pos_within_token|assert:Overflow(Sub)|0"], "len_remaining is the length of chars.as_str() at the last reset (or at construction) and chars only shrinks (C14.1: the only mutator of `chars` is Chars::next), so len_remaining >= chars.as_str().len()")
# unescape (reached from validation only)
add(L, ["lexer::unescape::scan_escape|assert:Overflow(Mul)|0", "lexer::unescape::scan_escape|assert:Overflow(Add)|0"], "`hi * 16 + lo` with hi, lo = to_digit(16) results < 16")
add(L, ["lexer::unescape::scan_unicode|assert:Overflow(Add)|0"], "`n_digits += 1` once per character of the literal; " + SIZE)
add(L, ["lexer::unescape::scan_unicode|assert:Overflow(Mul)|0", "lexer::unescape::scan_unicode|assert:Overflow(Add)|1"], "`value * 16 + digit` is executed only while n_digits <= 6 (the `continue` above it), so value < 16^6")
add(L, ["lexer::unescape::skip_ascii_whitespace|assert:Overflow(Add)|%d" % i for i in range(5)], "offsets `start + first_non_space (+ len_utf8) + 1` are byte offsets inside the literal text; " + SIZE)
add(L, ["lexer::unescape::skip_ascii_whitespace|index(str)<-chars,chars|0"], "`&tail[first_non_space..]`: first_non_space is a byte position returned by bytes().position() on ASCII whitespace bytes (or tail.len()), hence <= len and on a char boundary")
add(L, ["lexer::unescape::unescape_literal|assert:Overflow(Sub)|0", "lexer::unescape::unescape_raw_str_or_raw_byte_str|assert:Overflow(Sub)|0", "lexer::unescape::unescape_raw_str_or_raw_byte_str|assert:Overflow(Sub)|1", "lexer::unescape::unescape_raw_str_or_raw_byte_str|assert:Overflow(Sub)|2",
        "lexer::unescape::unescape_str_common|assert:Overflow(Sub)|0", "lexer::unescape::unescape_str_common|assert:Overflow(Sub)|1", "lexer::unescape::unescape_str_common|assert:Overflow(Sub)|2"],
    "`src.len() - chars.as_str().len() [- c.len_utf8()]`: chars is an iterator over src that has just yielded c, so the remaining length plus len_utf8(c) is <= src.len()")

# ---------------- parser glue -----------------
add(L, ["parser::TopEntryPoint::parse|assert:assertion failed: depth > 0 || first|0", "parser::TopEntryPoint::parse|assert:|0", "parser::TopEntryPoint::parse|assert_eq:|0",
        "parser::TopEntryPoint::parse|assert:Overflow(Add)|0", "parser::TopEntryPoint::parse|assert:Overflow(Add)|1", "parser::TopEntryPoint::parse|assert:Overflow(Sub)|0", "parser::TopEntryPoint::parse|assert:Overflow(Sub)|1"],
    "debug-only balance check of the Enter/Exit steps: source_file wraps everything in one start..complete(SOURCE_FILE) (C02.4 single root), every Start has exactly one Finish because markers are used linearly and LIFO (C01.5), process() emits enter_node for each non-tombstone Start and leave_node for each Finish, and no FloatSplit step is ever produced (Output has no producer of SPLIT_EVENT: who-may-write rule C01.7). Hence depth > 0 between the first Enter and the last Exit, the stream is non-empty and ends at depth 0; the counter is bounded by the number of events.")
add(L, ["parser::event::process|index(Vec)<-events|0"], "`events[i]` with i in 0..events.len()")
add(L, ["parser::event::process|assert:Overflow(Add)|0", "parser::event::process|index(Vec)<-events|1", "parser::event::process|unreachable:internal error: entered unreachable code|0"],
    "forward_parent offsets are written only by CompletedMarker::precede (new_pos.pos - self.pos, the new Start was just pushed, so the target index is a later Start event) and CompletedMarker::extend_to (self.pos - m.pos with m created earlier; under the MARKER discipline C01.5 self is a later Start). So idx + fwd indexes an existing Start event: no overflow, in bounds, and the `_ => unreachable!()` arm is not taken.")
add(L, ["parser::event::process|drain<-new|0"], "`forward_parents.drain(..)` with the full range never panics")
add(L, ["parser::input::Input::bit_index|assert:DivisionByZero|0", "parser::input::Input::bit_index|assert:RemainderByZero|0", "parser::input::Input::push|assert:RemainderByZero|0"], "divisor is the constant u64::BITS = 64")
add(L, ["parser::input::Input::is_joint|index(Vec)<-self|0"], "`joint[idx]` with idx = n / 64: is_joint(n) is only called from at_composite2/3 with n = pos + k after `kind(pos + k) == k1` succeeded for a non-EOF kind, so n < kind.len(); push() grows `joint` by one word whenever kind.len() % 64 == 0, so joint.len() * 64 > n")
add(L, ["parser::input::Input::is_joint|assert:Overflow(Shl)|0", "parser::input::Input::was_joint|assert:Overflow(Shl)|0"], "`1 << b_idx` with b_idx = n % 64 < 64 on a u64")
add(L, ["parser::input::Input::was_joint|assert:Overflow(Sub)|0", "parser::input::Input::was_joint|index(Vec)<-self|0"], "was_joint() is called from to_input only after at least one push() (was_joint flag is set after a push; the FLOAT_NUMBER case directly follows res.push), so len() >= 1 and joint has a word for index len()-1")
add(L, ["parser::lexed_str::LexedStr::kind|assert:assertion failed: i < self.len()|0", "parser::lexed_str::LexedStr::kind|index(Vec)<-self|0"], "callers: to_input (i in 0..self.len()), Builder::eat_trivias (under `self.pos < self.lexed.len()`), Builder::enter closure (it in pos..len()), eat_n_trivias (n <= number of trivia tokens counted from pos by the same predicate)")
add(L, ["parser::lexed_str::LexedStr::len|assert:Overflow(Sub)|0"], "`self.kind.len() - 1`: LexedStr values exist only as returned by Converter::finalize_with_eof, which pushes the EOF entry, so kind.len() >= 1")
add(L, ["parser::lexed_str::LexedStr::new|index(str)<-text|0", "parser::lexed_str::LexedStr::new|index(str)<-text|1", "parser::lexed_str::LexedStr::new|index(str)<-index|0"],
    "`&text[conv.offset..][..token.len]`: offset is the sum of the lengths of the tokens produced so far and token.len is the next length; by C14 (tokens partition the input on char boundaries, lengths telescope to the input length) both slices are in range and on boundaries")
add(L, ["parser::lexed_str::LexedStr::range_text|assert:assertion failed: r.start < r.end && r.end <= self.len()|0", "parser::lexed_str::LexedStr::range_text|index(Vec)<-self|0", "parser::lexed_str::LexedStr::range_text|index(Vec)<-self|1", "parser::lexed_str::LexedStr::range_text|index(str)<-self|0",
        "parser::lexed_str::LexedStr::text|assert:Overflow(Add)|0"],
    "callers: text(i) with i < len() (to_input loop, enter closure), Builder::do_token / do_float_split with pos..pos+n: trivia tokens are emitted only under pos < len(); parser tokens: the parser consumed n_raw_tokens non-EOF input tokens (EOFSAFE, C01.3) and Builder.pos advances over exactly the same tokens plus trivia (count identities C02.2), so pos + n <= len(). `start` has len()+1 entries (one per token plus EOF) with non-decreasing byte offsets on char boundaries (C14.4), so the two Vec indexings and the str slice are in range.")
add(L, ["parser::lexed_str::LexedStr::text_start|assert:assertion failed: i <= self.len()|0", "parser::lexed_str::LexedStr::text_start|index(Vec)<-self|0"], "called with builder.pos, which never exceeds len() (see range_text)")
add(L, ["parser::lexed_str::Converter::push|assert:Overflow(Add)|0"], "`self.offset += len`: sum of token lengths = input length (C14.2)")
add(L, ["parser::output::Output::enter_node|assert:Overflow(Shl)|%d" % i for i in range(2)] + ["parser::output::Output::error|assert:Overflow(Shl)|0", "parser::output::Output::leave_node|assert:Overflow(Shl)|0", "parser::output::Output::token|assert:Overflow(Shl)|0", "parser::output::Output::token|assert:Overflow(Shl)|1"] + ["parser::output::Output::iter::{closure#0}|assert:Overflow(Shr)|%d" % i for i in range(5)],
    "shift amounts are the associated constants ERROR_SHIFT=1, TAG_SHIFT=4, N_INPUT_TOKEN_SHIFT=8, KIND_SHIFT=16 (trailing_zeros/ones of constant masks), all < 32 (re-derived from the evaluated constants by rule C02.2)")
add(L, ["parser::output::Output::iter::{closure#0}|index(Vec)<-None|0"], "`self.error[event >> ERROR_SHIFT]`: error events are produced only by Output::error, which stores idx = self.error.len() before pushing the message")
add(L, ["parser::output::Output::iter::{closure#0}|unreachable:internal error: entered unreachable code|0"], "tags are written only by token (0), enter_node (1), leave_node (2); the decoder handles 0..=3")
add(L, ["parser::shortcuts::Builder::do_float_split|assert:Overflow(Add)|0", "parser::shortcuts::Builder::do_float_split|assert:Overflow(Add)|1", "parser::shortcuts::Builder::do_float_split|unreachable:internal error: entered unreachable code|0", "parser::shortcuts::Builder::do_float_split|assert:assertion failed: !left.is_empty()|0", "parser::shortcuts::Builder::do_float_split|assert:|0", "parser::shortcuts::Builder::float_split|unreachable:internal error: entered unreachable code|0"],
    "float_split is only reached for Step::FloatSplit, which Output::iter produces only for tag SPLIT_EVENT (3); no function writes that tag (who-may-write rule C01.7), so this code is unreachable")
add(L, ["parser::shortcuts::Builder::do_token|assert:Overflow(Add)|0", "parser::shortcuts::Builder::do_token|assert:Overflow(Add)|1"], "`self.pos + n_tokens` <= number of tokens (see range_text)")
add(L, ["parser::shortcuts::Builder::eat_n_trivias|assert:assertion failed: kind.is_trivia()|0"], "eat_n_trivias(n) is called with n_trivias - n_attached and n_attached, both <= n_trivias = the number of consecutive trivia tokens counted from self.pos by the same predicate (C02.3 checks the two arguments sum to n_trivias)")
add(L, ["parser::shortcuts::Builder::enter|assert:Overflow(Add)|0", "parser::shortcuts::Builder::enter|assert:Overflow(Sub)|0"], "`pos + n_trivias` <= len(); `n_trivias - n_attached`: n_attached_trivias returns res = i + 1 for an index i of the enumerated (reversed) leading trivias, so res <= n_trivias")
add(L, ["parser::shortcuts::Builder::exit|unreachable:internal error: entered unreachable code|0", "parser::shortcuts::Builder::token|unreachable:internal error: entered unreachable code|0", "parser::shortcuts::LexedStr::intersperse_trivia|unreachable:internal error: entered unreachable code|0"],
    "state machine: the state starts as PendingEnter and the first step is always Enter (source_file starts with p.start(), C02.4), after which the state is never PendingEnter again; the final step is the Exit of SOURCE_FILE, leaving PendingExit")
add(L, ["parser::shortcuts::n_attached_trivias|assert:Overflow(Add)|0"], "`i + 1` for an enumerate index over the trivia tokens")
add(L, ["parser::token_set::mask|assert:Overflow(Shl)|0"], "`1u128 << kind`: reached at run time only from TokenSet::contains behind the `kind < 128` guard (C01.4); TokenSet::new is const-evaluated")
# ---------------- syntax crate -----------------
add(L, ["syntax::SourceFile::parse|assert_eq:|0", "syntax::SourceFile::parse_check_lex|assert_eq:|0"], "root.kind() == SOURCE_FILE: the first Enter step is the SOURCE_FILE node completed by grammar::entry::top::source_file (C02.4 single root)")
add(L, ["syntax::parsing::build_tree|unwrap<-try_into|0", "syntax::parsing::build_tree|unwrap<-try_into|1", "syntax::parsing::build_tree::{closure#0}|unwrap<-try_into|0", "syntax::parsing::lexer_errors_to_syntax_errors|unwrap<-try_into|0", "syntax::parsing::lexer_errors_to_syntax_errors|unwrap<-try_into|1"],
    "usize -> u32 (TextSize) conversion of a byte offset into the text; " + SIZE)
add(L, ["syntax::validation::validate_literal::{closure#0}|assert:Overflow(Add)|0", "syntax::validation::validate_literal::{closure#0}|unwrap<-try_from|0"], "`off + prefix_len` is a byte offset inside the literal token; " + SIZE)
add(L, ["syntax::ast::expr_ext::Literal::token|unwrap<-and_then|0"], "Literal::token(): a LITERAL node is completed only by atom::literal between p.start() and complete() with exactly one bump_any() of a non-EOF token (window refined by LITERAL_FIRST), so it has a first non-trivia token child. (Before the marker fix `3ns[0];` violated this; now covered by C01.5 MARKER-LIFO.)")
add(L, ["syntax::ast::expr_ext::Literal::kind|unreachable:internal error: entered unreachable code|0"], "Literal::kind(): the token of a LITERAL node is the one token bumped by atom::literal under p.at_ts(LITERAL_FIRST) = {BIT_STRING, BYTE, CHAR, FLOAT_NUMBER, INT_NUMBER, STRING, true, false}; the six AstToken casts cover the first six kinds (can_cast tables of generated/tokens.rs) and the final match the two keywords")
add(L, ["syntax::validation::validate_timing_literal|unwrap<-identifier|0"], "TimingLiteral::identifier(): TIMING_LITERAL is completed only by atom::literal after identifier(p), which always completes an IDENTIFIER node (p.expect(IDENT) under `matches!(p.nth(1), IDENT)`)")
add(L, ["syntax::ast::node_ext::text_of_first_token::first_token|unwrap<-and_then|0"], "text_of_first_token is reached in this cone only through ast accessors on nodes that contain at least one token (NAME / IDENTIFIER are completed after a bump or an error; see C03 inventory for the semantic cone)")
add("C18.6-inventory", ["source_file::source_file::SourceFile::new|assert:assertion failed: include_error.is_some()|0"],
    "fs::canonicalize fails only for a path that does not exist / is unreadable. SourceFile::new is called (a) by parse_one_included after fs::read_to_string succeeded on the same path (include_error None, canonicalize succeeds barring a race with file deletion), (b) by parse_one_included on a read error with include_error = Some, (c) by parse_source_file_with_search after read_source_file succeeded on the same path. So when canonicalize fails, include_error is Some.",
    ["oq3_source_file::api::parse_source_file_with_search", "oq3_source_file::source_file::parse_included_files::parse_one_included"])
out = [{"key": k, **v} for k, v in sorted(R.items())]
json.dump(out, open(os.path.join(V, "spec", "reviewed_sites.json"), "w"), indent=1, ensure_ascii=False)
print(len(out), "reviewed entries")
