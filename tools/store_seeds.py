#!/usr/bin/env python3
"""Developer tool: copy verified seeded changes from /tmp/seed/<src> into /verif/seeded/<name>/ with meta.json.
usage: store_seeds.py <info.json>   (info: {name: {src, property, what, needs, before, by, rules, note}})"""
import json, os, re, shutil, sys
V = os.path.dirname(os.path.dirname(os.path.abspath(__file__)))
info = json.load(open(sys.argv[1]))
for d, i in info.items():
    dst = os.path.join(V, "seeded", d)
    os.makedirs(dst, exist_ok=True)
    src = os.path.join("/tmp/seed", i["src"])
    for f in ("patch.diff", "demo.rs", "README.md"):
        shutil.copy(os.path.join(src, f), os.path.join(dst, f))
    r = open(os.path.join(src, "README.md")).read()
    m = re.search(r"crates/[a-z0-9_]+/(tests|examples)/[A-Za-z0-9_]+\.rs", r)
    pl = m.group(0)
    cmd = f"cargo test --offline -p {pl.split('/')[1]} --test {os.path.basename(pl)[:-3]}"
    meta = {"property": i["property"], "origin": "independent sub-agent given only the property text and a scratch git worktree of /repo" + (" (second round: told which two ideas were already taken)" if i.get("round2") else ""),
            "breaks": i["what"], "needs_to_manifest": i["needs"], "demonstration": {"file": "demo.rs", "place_at": pl, "command": cmd},
            "confirmed": "tools/verify_seed.sh in a scratch worktree at the then-current HEAD of /repo: demonstration passes on HEAD, fails with patch.diff applied; `cargo test --workspace --no-fail-fast --offline` with the patch: 228 passed, 0 failed",
            "checks_run": "bin/with_mutant <patch.diff> <ID..> (scratch copy of /repo's working tree + patch, same facts extraction and rules as `bin/check <ID> quick`)",
            "detected_before_strengthening": i["before"], "detected_by": i["by"], "rules": i["rules"], "note": i.get("note", "")}
    json.dump(meta, open(os.path.join(dst, "meta.json"), "w"), indent=1, ensure_ascii=False)
print(len(info), "stored")
