#!/bin/bash
# verify_seed_auto.sh <ID> : verify both seeds of /tmp/seed/<ID>/{1,2} in /tmp/wt/<ID> (placement parsed from README)
ID=$1
for n in 1 2; do
  S=/tmp/seed/$ID/$n
  P=$(grep -oE "crates/[a-z0-9_]+/(tests|examples)/[A-Za-z0-9_]+\.rs" $S/README.md | head -1)
  CR=$(echo $P | cut -d/ -f2); T=$(basename $P .rs)
  echo "== $ID/$n ($P)"
  /verif/tools/verify_seed.sh $S /tmp/wt/$ID $CR $T
done
