#!/bin/bash
# verify_seed_auto.sh <seed ID dir name under /tmp/seed> [worktree ID] : verify both seeds (placement parsed from README)
ID=$1; WT=${2:-$1}
for n in 1 2; do [ -f /tmp/seed/$ID/$n/patch.diff ] || continue;
  S=/tmp/seed/$ID/$n
  P=$(grep -oE "crates/[a-z0-9_]+/(tests|examples)/[A-Za-z0-9_]+\.rs" $S/README.md | head -1)
  CR=$(echo $P | cut -d/ -f2); T=$(basename $P .rs)
  echo "== $ID/$n ($P)"
  /verif/tools/verify_seed.sh $S /tmp/wt/$WT $CR $T
done
