#!/bin/bash
# verify_seed.sh <seed dir> <worktree> <crate> <testname>  — dev tool: confirm a seeded change
# (demo passes on HEAD, fails with the patch, the 228 pinned tests pass with the patch)
S="$1"; W="$2"; CR="$3"; T="$4"
cd "$W" || exit 9
git checkout -q -- . ; git clean -fdq -e target
mkdir -p crates/$CR/tests; cp "$S/demo.rs" crates/$CR/tests/$T.rs
timeout 900 cargo test --offline -q -p $CR --test $T > /tmp/vs.$$.a 2>&1; A=$?
git apply "$S/patch.diff" || { echo "APPLY FAILED"; exit 9; }
timeout 900 cargo test --offline -q -p $CR --test $T > /tmp/vs.$$.b 2>&1; B=$?
rm crates/$CR/tests/$T.rs; rmdir crates/$CR/tests 2>/dev/null
timeout 1800 cargo test --workspace --no-fail-fast --offline > /tmp/vs.$$.c 2>&1; C=$?
P=$(grep -E "^test result" /tmp/vs.$$.c | sed -E 's/.* ([0-9]+) passed.*/\1/' | paste -sd+ | bc)
F=$(grep -E "^test result" /tmp/vs.$$.c | sed -E 's/.* ([0-9]+) failed.*/\1/' | paste -sd+ | bc)
echo "demo_on_HEAD rc=$A | demo_with_patch rc=$B | suite rc=$C passed=$P failed=$F"
grep -E "panicked|FAILED|failed" /tmp/vs.$$.b | head -4 | cut -c1-200
git checkout -q -- . ; git clean -fdq -e target
rm -f /tmp/vs.$$.*
