#!/usr/bin/env python3
"""Write the prompt of one seeding sub-agent per property: tools/gen_seed_prompts.py <suffix> <ID...>
Creates worktree /tmp/wt/<ID> of /repo HEAD and /tmp/seed/<ID><suffix>/PROMPT.md (property text + ideas already taken,
read from seeded/<ID>-*/meta.json).  The prompt contains nothing else from /verif."""
import sys, os, json, glob, subprocess
suffix, ids = sys.argv[1], sys.argv[2:]
tmpl = open("/tmp/seed/PROMPT.txt").read()
for pid in ids:
    wt, out = f"/tmp/wt/{pid}", f"/tmp/seed/{pid}{suffix}"
    os.makedirs(out, exist_ok=True)
    if not os.path.isdir(wt):
        subprocess.run(["git", "-C", "/repo", "worktree", "add", "--detach", "-f", wt, "HEAD"], check=True, capture_output=True)
    taken = []
    for m in sorted(glob.glob(f"/verif/seeded/{pid}-*/meta.json"), key=lambda p: int(p.split("-")[-1].split("/")[0])):
        taken.append(json.load(open(m)).get("breaks", ""))
    body = tmpl.replace("WORKTREE", wt).replace("OUTDIR", out) + "\n" + open(f"/tmp/seed/{pid}.prop.txt").read().strip() + "\n\n\n"
    body += "Ideas that are already taken (do NOT reuse them, nor close variants of them; find different places, clauses of the property and mechanisms — read the property text again and pick a clause none of these touches; prefer changes that span two cooperating sites or hide in a rarely taken path):\n"
    body += "".join(f"  ({i+1}) {t}\n" for i, t in enumerate(taken))
    open(out + "/PROMPT.md", "w").write(body)
    print(pid, len(taken), "taken ->", out + "/PROMPT.md")
