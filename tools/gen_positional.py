#!/usr/bin/env python3
"""Developer tool (never run by a check): (re)generates spec/positional_accessors.json, the reviewed role table of
the hand-written positional accessors of oq3_syntax::ast, from the facts of the current tree.  Every row was read
against the grammar function that builds the node; the reason is stored with the accessor."""
import json, os, subprocess, sys
V = os.path.dirname(os.path.dirname(os.path.abspath(__file__)))
sys.path.insert(0, os.path.join(V, "analysis"))
from kernel import Program
import roles
REASON = {
 "expr_ext::ArgList::altargs": "not used by the analyser; first Name child",
 "expr_ext::ArrayExpr::kind": "array literal [e; n] has exactly two expression children (value, length) when is_repeat; otherwise the element list is the child iterator itself",
 "expr_ext::AssignmentStmt::rhs": "assignment_statement: the target is an Identifier/IndexedIdentifier node (not an Expr for indexed targets); the value is the last expression child",
 "node_ext::AssignmentStmt::identifier": "expr_bp completes ASSIGNMENT_STMT around lhs.precede(): the target (IDENTIFIER or INDEXED_IDENTIFIER) is the first child; fix 2nd of 2026-09-26 (selecting the first Identifier child returned the value of `a[0] = b;`)",
 "expr_ext::BinExpr::lhs": "expr_bp: lhs.precede(p) .. BIN_EXPR has the left operand as first and the right operand as second expression child",
 "expr_ext::BinExpr::rhs": "see BinExpr::lhs",
 "expr_ext::BinExpr::sub_exprs": "see BinExpr::lhs",
 "expr_ext::CallExpr::identifier": "call_expr: the callee is the first expression child and must be an identifier",
 "expr_ext::GateCallExpr::identifier": "gate_call_expr: the gate name is the first expression child",
 "expr_ext::Gate::angles_and_or_qubits": "gate_definition: optional '(' angle params ')' then the qubit parameter list: two PARAM_LIST children in that order (the caller disambiguates when only one is present)",
 "expr_ext::IndexExpr::base": "index_expr: lhs.precede(p): the indexed expression is the first child",
 "expr_ext::IndexExpr::index": "second expression child of an INDEX_EXPR",
 "expr_ext::RangeExpr::start_step_stop": "range_expr parses e0 ':' e1 [':' e2]; OpenQASM writes start:step:stop, so with three children the middle one is the step and with two the second is the stop",
 "node_ext::ForStmt::loop_body": "for_stmt: the iterable may itself be written as a braced set expression; the body is the last block child",
 "node_ext::IfStmt::condition": "if_stmt: condition expression is the first expression child",
 "node_ext::IfStmt::then_branch_block": "if_stmt: `if` `(` cond `)` then-body [`else` else-body]: the then-body is the second child node before the `else` keyword (the first is the condition), whether it is a block or a single statement (fix of 2026-09-26)",
 "node_ext::IfStmt::else_branch_block": "the else-body is the first child node after the `else` keyword",
 "node_ext::IfStmt::then_branch_stmt": "see then_branch_block (cast to Stmt)",
 "node_ext::IfStmt::else_branch_stmt": "see else_branch_block (cast to Stmt)",
 "node_ext::WhileStmt::body": "while_stmt: body block",
 "node_ext::WhileStmt::condition": "while_stmt: condition is the first expression child",
 "node_ext::WhileStmt::loop_body": "while_stmt: body is the last block child",
 "node_ext::WhileStmt::stmt": "while_stmt with a single-statement body: first Stmt child",
 "node_ext::text_of_first_token::first_token": "first token of the green node (name text)",
}
facts = subprocess.run([os.path.join(V, "bin", "curfacts")], capture_output=True, text=True).stdout.strip()
prog = Program(facts)
out = []
for fn in roles.positional_accessors(prog):
    rows, unk = roles.table(prog, fn)
    short = fn.replace(roles.AST, "")
    if unk:
        print("UNKNOWN idiom in", short, unk)
    out.append({"accessor": short, "rows": [{"when": list(c), "returns": r} for c, r in rows], "reason": REASON.get(short, "UNREVIEWED")})
json.dump(out, open(os.path.join(V, "spec", "positional_accessors.json"), "w"), indent=1)
print(len(out), "accessors;", sum(1 for o in out if o["reason"] == "UNREVIEWED"), "unreviewed")
