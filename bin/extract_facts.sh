#!/bin/bash
# usage: extract_facts.sh <repo dir> <out dir>
# Runs the oq3facts driver over the five library crates of <repo dir> (current
# working tree) and writes one JSON per crate to <out dir>.
set -u
REPO="$1"; OUT="$2"
DRV=/verif/driver/target/release/oq3facts
if [ ! -x "$DRV" ] || [ /verif/driver/src/main.rs -nt "$DRV" ]; then
  (cd /verif/driver && CARGO_NET_OFFLINE=true cargo build --release --offline >/dev/null 2>&1) || { echo "driver build failed" >&2; exit 3; }
fi
mkdir -p "$OUT"
TGT=$(mktemp -d /tmp/oq3facts_tgt.XXXXXX)
trap 'rm -rf "$TGT"' EXIT
SYSROOT=$(rustc +nightly --print sysroot)
cd "$REPO" || exit 3
LD_LIBRARY_PATH="$SYSROOT/lib" \
RUSTFLAGS="-Zmir-opt-level=0 -Awarnings" \
RUSTC_WORKSPACE_WRAPPER="$DRV" \
OQ3FACTS_OUT="$OUT" CARGO_TARGET_DIR="$TGT" CARGO_NET_OFFLINE=true \
cargo +nightly check --offline -q -p oq3_lexer -p oq3_parser -p oq3_syntax -p oq3_source_file -p oq3_semantics > "$OUT/cargo.log" 2>&1
rc=$?
if [ $rc -ne 0 ]; then echo "cargo check failed (see $OUT/cargo.log)" >&2; exit 2; fi
for c in oq3_lexer oq3_parser oq3_syntax oq3_source_file oq3_semantics; do
  [ -s "$OUT/$c.json" ] || { echo "missing facts for $c" >&2; exit 2; }
done
exit 0
