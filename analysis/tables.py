"""Decision-table extraction helpers (string-match tables, char-match tables) via free-term path enumeration."""
from kernel import *
from sym import SymExec, show, deep_strip, strip_transparent


def string_table(prog, fn, argname=None, max_paths=5000):
    """{string: result term} for a `match s { "a" => X, ... }` function; key None = fallthrough rows (list)."""
    b = prog.body(fn)
    out, other = {}, []
    if not b:
        return None, None
    for p in SymExec(prog, b, max_paths=max_paths).paths():
        if "__diverged__" in p.env or "__cut__" in p.env:
            continue
        hit = None
        for c in p.conds:
            if c[0] != "switch":
                continue
            t = c[1]
            if isinstance(t, tuple) and t[0] in ("pure", "call") and t[1].endswith("eq") and len(t[2]) == 2:
                s_ = [x for x in t[2] if isinstance(x, tuple) and x[0] == "c" and isinstance(x[2], str)]
                truth = (c[2] == ("ne", (0,))) if c[2][0] == "ne" else (c[2][1] != 0)
                if s_ and truth:
                    hit = s_[0][2]
        r = deep_strip(p.env.get(0))
        if hit is not None:
            out.setdefault(hit, r)
        else:
            other.append(r)
    return out, other


def char_conds(p, pred):
    """characters c such that the path requires pred-term == c"""
    out = []
    for c in p.conds:
        if c[0] == "switch" and c[2][0] == "eq" and pred(c[1]):
            out.append(c[2][1])
    return out
