"""Must-complete facts of grammar functions (a first, path-insensitive cut of the tree-shape engine K8).

always_completes(prog, F, kinds): on every path from the entry of grammar function F to a return, F completes a node
whose kind is in `kinds` — directly (Marker::complete(p, K)) or by calling a grammar function that always does.
Decided on the CFG: removing the blocks that do so must disconnect the entry from every return.  Panicking exits do
not count as returns (they are C01's business)."""
from kernel import origins

_memo = {}


_rk = {}


def _returned_kinds(prog, fn):
    """SyntaxKind constants a small pure grammar helper (`fn list_node_kind(flavor) -> SyntaxKind`) can return."""
    key = (prog.dir, fn)
    if key not in _rk:
        from sym import SymExec, deep_strip
        b = prog.body(fn)
        out = set()
        if b is not None and len(b.blocks) <= 60:
            for p in SymExec(prog, b, max_visits=1, max_paths=400).paths():
                if "__diverged__" in p.env:
                    continue
                r = deep_strip(p.env.get(0))
                out.add(r[1].rsplit("::", 1)[1] if isinstance(r, tuple) and r[0] == "adt" and "SyntaxKind::" in r[1] else "?")
        _rk[key] = out or {"?"}
    return _rk[key]


def completed_kinds(prog, b, bi_t):
    bi, t = bi_t
    out = set()
    for og in origins(prog, b, t["args"][2], max_depth=3):
        if og[0] == "agg":
            out.add(og[2])
        elif og[0] == "call" and isinstance(og[1], str) and og[1].startswith("oq3_parser::grammar::") and prog.body(og[1]) is not None:
            out |= _returned_kinds(prog, og[1])      # the kind comes out of a helper table
        else:
            out.add("?")
    return out


ERRORS = ("oq3_parser::parser::Parser::error", "oq3_parser::parser::Parser::err_and_bump", "oq3_parser::parser::Parser::err_recover")


def always_completes(prog, fn, kinds, _stack=(), or_error=False):
    """or_error: a path that reports a syntax error (Parser::error / err_and_bump / err_recover) also counts: the
    analyser never sees such a tree (C11.3)."""
    kinds = frozenset(kinds)
    key = (prog.dir, fn, kinds, or_error)
    if key in _memo:
        return _memo[key]
    if fn in _stack:
        return False
    b = prog.body(fn)
    if b is None:
        return None
    cut = set()
    for bi, t in b.calls():
        cal = b.callee_of(t) or ""
        if cal.endswith("Marker::complete"):
            ks = completed_kinds(prog, b, (bi, t))
            if ks and ks <= kinds:
                cut.add(bi)
        elif cal.startswith("oq3_parser::grammar::") and "{closure" not in cal and prog.body(cal) is not None:
            if always_completes(prog, cal, kinds, _stack + (fn,), or_error):
                cut.add(bi)
        elif or_error and cal in ERRORS:
            cut.add(bi)
    succ = b.succ()
    seen, st = set(), [0]
    res = True
    while st:
        x = st.pop()
        if x in seen or x in cut or b.blocks[x].cleanup:
            continue
        seen.add(x)
        if b.blocks[x].term["k"] == "return":
            res = False
            break
        st.extend(succ[x])
    if not _stack:
        _memo[key] = res
    return res


_mh = {}


def marker_helpers(prog):
    """{F: kinds} for the private grammar functions that are handed an open Marker and close it on every path
    (e.g. the tail of the operator loop extracted into `complete_infix_expr(p, m, ..)`): a call of such a function
    counts as the completion of the caller's node, with the kinds F completes."""
    if prog.dir in _mh:
        return _mh[prog.dir]
    out = {}
    for k, b in prog.bodies.items():
        if not k.startswith("oq3_parser::grammar::") or "{closure" in k or str(b.vis) == "pub":
            continue
        if not any("parser::Marker" in str(b.local_ty(i)) and "CompletedMarker" not in str(b.local_ty(i)) for i in range(1, b.nargs + 1)):
            continue
        closes = {bi for bi, t in b.calls() if (b.callee_of(t) or "").endswith(("Marker::complete", "Marker::abandon"))}
        if not closes:
            continue
        succ = b.succ()
        seen, st, open_exit = set(), [0], False
        while st:
            x = st.pop()
            if x in seen or x in closes or b.blocks[x].cleanup:
                continue
            seen.add(x)
            if b.blocks[x].term["k"] == "return":
                open_exit = True
                break
            st.extend(succ[x])
        if open_exit:
            continue
        kinds = set()
        for bi, t in b.calls():
            if (b.callee_of(t) or "").endswith("Marker::complete"):
                kinds |= completed_kinds(prog, b, (bi, t))
        out[k] = kinds
    _mh[prog.dir] = out
    return out
