"""Character-class tables of the lexer's digit scanners, derived by evaluating their MIR on each input character.

For a scanner `eat_*_digits` (loop: match self.first() { '_' => bump, <digit> => { has_digits = true; bump }, _ => break })
the first loop iteration is evaluated with Cursor::first() = c for every c in a representative alphabet (all of
ASCII plus a few non-ASCII characters); recorded per character: is it consumed (bump called), and is `has_digits`
set.  The table is what the rules compare with the digit class of the radix."""
from sym import SymExec

def _lexer_helpers(c):
    """Private functions of the lexer other than the cursor primitives are looked into (a scanner that delegates to a
    shared helper is evaluated through it)."""
    return c.startswith("oq3_lexer::") and not c.endswith(("Cursor::bump", "Cursor::first", "Cursor::second", "Cursor::prev", "Cursor::is_eof", "Cursor::pos_within_token", "Cursor::eat_while", "is_whitespace", "is_id_start", "is_id_continue"))


ALPHABET = list(range(0, 128)) + [0xB5, 0x3BC, 0x660, 0x2028, 0xFF10]


def table(prog, fn):
    """{c: (consumed, counted as a digit, unambiguous)} for a digit scanner: the scanner is run on the input `c` followed
    by NUL characters (first() = c until the first bump, NUL afterwards); consumed = a bump happened, counted = the
    scanner's result (its `has_digits`).  Helpers and predicate closures of the lexer are looked into, so that two
    scanners sharing one parameterised body give the same table as two hand-written loops."""
    b = prog.body(fn)
    if b is None:
        return None
    out = {}
    for c in ALPHABET:
        def model(se, st, t, cal, args, site, c=c):
            nb = sum(1 for nm, a, bb in st.calls if nm.endswith("Cursor::bump"))
            if cal.endswith("Cursor::first"):
                return ("c", "char", c if nb == 0 else 0)
            if cal.endswith("Cursor::bump"):
                return ("adt", "std::option::Option::Some", (("c", "char", c if nb == 0 else 0),))
            return None
        cons, sets, cut = set(), set(), False
        for p in SymExec(prog, b, max_visits=4, max_paths=400, call_model=model, inline=lambda k: _lexer_helpers(k) or "{closure" in k).paths():
            if "__diverged__" in p.env:
                continue
            if "__cut__" in p.env:
                cut = True
                continue
            r = p.env.get(0)
            cons.add(any(nm.endswith("Cursor::bump") for nm, a, bb in p.calls))
            sets.add(bool(r[2]) if isinstance(r, tuple) and r[0] == "c" else "?")
        out[c] = (cons == {True}, sets == {True}, len(cons) == 1 and len(sets) == 1 and "?" not in sets and not (cut and not cons))
    return out


def check(prog, R, rule):
    want = {"oq3_lexer::Cursor::eat_decimal_digits": set(range(48, 58)),
            "oq3_lexer::Cursor::eat_hexadecimal_digits": set(range(48, 58)) | set(range(97, 103)) | set(range(65, 71))}
    for fn, digits in want.items():
        t = table(prog, fn)
        b = prog.body(fn)
        name = fn.split("::")[-1]
        if t is None:
            R.ob(rule, name, False, b.at if b else "", "scanner not found or its `has_digits` flag was renamed: the digit table cannot be derived")
            continue
        amb = [chr(c) for c, v in t.items() if not v[2]]
        consumed = {c for c, v in t.items() if v[0]}
        setd = {c for c, v in t.items() if v[1]}
        ok = not amb and setd == digits and consumed == digits | {95}
        R.ob(rule, name, ok, b.at, f"consumes {len(consumed)} characters (digits and '_'), reports a digit for exactly the {len(digits)} digits of the radix" if ok else
             f"digit scanner table deviates: reports `has_digits` for {sorted(chr(c) for c in setd ^ digits)} differently from the digit class, consumes {sorted(chr(c) for c in consumed ^ (digits | {95}))} differently (an underscore-only or empty digit string must be flagged as missing digits); ambiguous {amb[:3]}")


def closure_class(prog, fn, alphabet=None):
    """truth table of a `|(_, c)| <predicate on c>` closure over the alphabet (concrete evaluation of its MIR)"""
    from sym import deep_strip
    b = prog.body(fn)
    out = {}
    for c in (alphabet or ALPHABET):
        def model(se, st, t, cal, args, site):
            a = deep_strip(args[0]) if args else None
            if a is None or a[0] != "c":
                return None
            ch = chr(a[2]) if isinstance(a[2], int) else None
            if ch is None:
                return None
            for name, f in (("is_ascii_alphabetic", lambda x: x.isascii() and x.isalpha()), ("is_ascii_hexdigit", lambda x: x in "0123456789abcdefABCDEF"),
                            ("is_ascii_digit", lambda x: x in "0123456789"), ("is_ascii_alphanumeric", lambda x: x.isascii() and x.isalnum()), ("::is_ascii", lambda x: x.isascii()),
                            ("is_alphabetic", lambda x: x.isalpha()), ("is_alphanumeric", lambda x: x.isalnum())):
                if cal.endswith(name):
                    return ("c", "bool", int(f(ch)))
            return None
        vals = set()
        for p in SymExec(prog, b, call_model=model, max_paths=50).paths({2: ("tuple", (("c", "usize", 0), ("c", "char", c)))}):
            r = p.env.get(0)
            vals.add(r[2] if isinstance(r, tuple) and r[0] == "c" else "?")
        out[c] = vals.pop() if len(vals) == 1 else "?"
    return out


def suffix_start_check(prog, R, rule):
    """IntNumber::split_into_parts cuts the literal at the first `suffix start` character.  Its class must be the
    complement (within ASCII letters, '_' and digits) of what the lexer's digit scanner of that radix consumes as
    digits: a character the lexer treats as part of the digits must not start the suffix (else the value is
    truncated), and a letter it does not consume as a digit must (else from_str_radix sees a non-digit)."""
    from sym import show
    from sema import conds_of
    fn = "oq3_syntax::ast::token_ext::IntNumber::split_into_parts"
    b = prog.body(fn)
    if b is None:
        R.ob("ANCHOR", fn, False)
        return
    radix = {d: n for n, d in prog.enum_variants("oq3_syntax::ast::token_ext::Radix")}
    assoc = {}
    for p in SymExec(prog, b).paths():
        cl = [a[1] for n_, args, bb in p.calls if n_.endswith("::find") for a in args[1:] if isinstance(a, tuple) and a[0] == "closure"]
        rc = [c for t, c in conds_of(p) if show(t) == "discr(radix(self))"]
        if cl and rc:
            names = [radix.get(rc[0][1])] if rc[0][0] == "eq" else [n for d, n in radix.items() if d not in rc[0][1]]
            for n in names:
                assoc.setdefault(n, set()).add(cl[0])
    lex = {"Hexadecimal": "oq3_lexer::Cursor::eat_hexadecimal_digits", "Decimal": "oq3_lexer::Cursor::eat_decimal_digits", "Binary": "oq3_lexer::Cursor::eat_decimal_digits", "Octal": "oq3_lexer::Cursor::eat_decimal_digits"}
    ascii_ = [c for c in ALPHABET if c < 128 and (chr(c).isalnum() or c == 95)]
    for rn in sorted(n for n in radix.values()):
        cls = assoc.get(rn)
        if not cls or len(cls) != 1:
            R.ob(rule, rn, False, b.at, f"no unique suffix-start predicate for radix {rn}: {cls}")
            continue
        tab = closure_class(prog, list(cls)[0], ascii_)
        lt = table(prog, lex[rn])
        if lt is None:
            R.ob(rule, rn, False, b.at, "lexer digit scanner table unavailable")
            continue
        consumed = {c for c in ascii_ if lt[c][0]}
        bad = [chr(c) for c in ascii_ if tab[c] == "?" or (bool(tab[c]) == (c in consumed))]
        R.ob(rule, rn, not bad, b.at, f"suffix starts exactly at the first ASCII letter/digit/underscore that {lex[rn].split('::')[-1]} does not consume ({len(ascii_)} characters compared)" if not bad else
             f"suffix-start class disagrees with the lexer's digit scanner {lex[rn].split('::')[-1]} on {bad[:8]}: the digit string handed to from_str_radix is cut short or contains non-digits")


def exponent_markers(prog, R, rule):
    """Sibling agreement of the duplicated exponent arms of the lexer: at every decision point that leads to
    eat_float_exponent (number with fraction, number without fraction, float without leading digit) the accepted
    marker characters are exactly {'e', 'E'}."""
    from collections import defaultdict
    n = 0
    for b in prog.by_crate["oq3_lexer"]:
        if not any((b.callee_of(t) or "").endswith("Cursor::eat_float_exponent") for _, t in b.calls()):
            continue
        g = defaultdict(set)
        for p in SymExec(prog, b, max_paths=8000).paths():
            if not any(nm.endswith("Cursor::eat_float_exponent") for nm, a, bb in p.calls):
                continue
            last = None
            for c in p.conds:
                if c[0] == "switch" and isinstance(c[1], tuple) and c[1][0] == "call" and c[1][1].endswith("Cursor::first"):
                    last = c
            if last is None:
                g[("?", 0)].add("no decision on first()")
            else:
                g[(last[4], b.blocks[last[4]].term["at"])].add(last[2])
        for o, ((bb, at), vals) in enumerate(sorted(g.items(), key=lambda kv: str(kv[0]))):
            n += 1
            ok = vals == {("eq", 101), ("eq", 69)}
            R.ob(rule, f"{b.npath.split('::')[-1]}:{o}", ok, at, "exponent accepted after exactly 'e' and 'E'" if ok else
                 f"this exponent arm accepts {sorted(chr(v[1]) if isinstance(v, tuple) and v[0] == 'eq' else str(v) for v in vals)} while its siblings accept 'e' and 'E': the same literal is a float in one position and an integer with a suffix in another")
    R.floor("exponent decision points in the lexer", n, 1)


def string_scanner_table(prog, fn, quote, other_quote):
    """Decision table of one iteration of a quoted-string scanner: for the consumed character c and the next
    character x: does the scanner return (terminated) and does it consume x as an escaped character.  Characters are
    abstracted to classes relative to the scanner's own quote: Q (own quote), O (the other quote), backslash,
    newline, underscore, '0', 'a'."""
    from sym import deep_strip, show
    b = prog.body(fn)
    if b is None:
        return None
    cls = {"Q": quote, "O": other_quote, "\\": 92, "n": 10, "_": 95, "0": 48, "a": 97}
    bumps = {bi for bi, t in b.calls() if (b.callee_of(t) or "").endswith("Cursor::bump")}
    out = {}
    for cn, c in cls.items():
        for xn, x in cls.items():
            def model(se, st, t, cal, args, site, c=c, x=x):
                if cal.endswith("Cursor::bump"):
                    nb = sum(1 for nm, a, bb in st.calls if nm.endswith("Cursor::bump"))
                    if nb == 0:
                        return ("adt", "std::option::Option::Some", (("c", "char", c),))
                    if nb == 1 and site[-1][1] == 0:
                        return ("adt", "std::option::Option::Some", (("c", "char", x),))      # a second bump in the same iteration consumes x
                    return ("adt", "std::option::Option::None", ())
                if cal.endswith("Cursor::first"):
                    return ("c", "char", x)
                return None
            res = set()
            for p in SymExec(prog, b, max_visits=2, max_paths=400, call_model=model, inline=_lexer_helpers).paths():
                if "__diverged__" in p.env:
                    continue
                nb = sum(1 for nm, a, bb in p.calls if nm.endswith("Cursor::bump"))
                r = deep_strip(p.env.get(0))
                term = show(r[1][0]) if isinstance(r, tuple) and r[0] == "tuple" else "?"
                res.add((term, nb))
            out[(cn, xn)] = tuple(sorted(res))
    return out


def string_scanners_agree(prog, R, rule):
    d = string_scanner_table(prog, "oq3_lexer::Cursor::double_quoted_string", 34, 39)
    s_ = string_scanner_table(prog, "oq3_lexer::Cursor::single_quoted_string", 39, 34)
    b = prog.body("oq3_lexer::Cursor::single_quoted_string")
    if d is None or s_ is None:
        R.ob("ANCHOR", "string scanners", False)
        return
    diff = sorted(k for k in d if d[k] != s_.get(k))
    # sanity of the table itself: the own quote terminates, backslash + (backslash | own quote) consumes two
    sane = all(any(t == "true" for t, nb in tab[("Q", x)]) for tab in (d, s_) for x in ("a", "Q")) and all(tab[("\\", "Q")] != tab[("\\", "a")] for tab in (d, s_))
    R.ob(rule, "single_quoted_string and double_quoted_string agree up to the quote character", not diff and sane, b.at if b else "",
         f"{len(d)} (consumed, next) character-class pairs give the same (terminated, characters consumed) outcome in both scanners" if not diff and sane else
         f"the string scanners disagree for (consumed, next) classes {diff[:4]} (Q = own quote, O = other quote): double {[d[k] for k in diff[:2]]} vs single {[s_.get(k) for k in diff[:2]]}; sane={sane}")


def string_flag_table(prog, fn, quote):
    """Flags reported by a quoted-string scanner for the bodies s in {'_','0','a'}^3 followed by the closing quote:
    (terminated, only_ones_and_zeros, consecutive_underscores), by evaluating the scanner's MIR on the four
    characters (the cursor is modelled by the number of bump() calls made so far)."""
    from sym import deep_strip, show
    import itertools
    b = prog.body(fn)
    if b is None:
        return None
    out = {}
    for seq in itertools.product("_0a", repeat=3):
        chars = [ord(x) for x in seq] + [quote]

        def model(se, st, t, cal, args, site, chars=chars):
            nb = sum(1 for nm, a, bb in st.calls if nm.endswith("Cursor::bump"))
            if cal.endswith("Cursor::bump"):
                return ("adt", "std::option::Option::Some", (("c", "char", chars[nb]),)) if nb < len(chars) else ("adt", "std::option::Option::None", ())
            if cal.endswith("Cursor::first"):
                return ("c", "char", chars[nb] if nb < len(chars) else 0)
            return None
        res = set()
        for p in SymExec(prog, b, max_visits=8, max_paths=300, call_model=model, inline=_lexer_helpers).paths():
            if "__diverged__" in p.env or "__cut__" in p.env:
                continue
            r = deep_strip(p.env.get(0))
            res.add(tuple(show(x) for x in r[1]) if isinstance(r, tuple) and r[0] == "tuple" else ("?",))
        out["".join(seq)] = tuple(sorted(res))
    return out


def string_flags_check(prog, R, rule):
    for fn, q in (("oq3_lexer::Cursor::double_quoted_string", 34), ("oq3_lexer::Cursor::single_quoted_string", 39)):
        t = string_flag_table(prog, fn, q)
        b = prog.body(fn)
        if t is None:
            R.ob("ANCHOR", fn, False)
            continue
        bad = []
        for s_, res in sorted(t.items()):
            want = (("true", "true" if all(c in "_0" for c in s_) else "false", "true" if "__" in s_ else "false"),)
            if res != want:
                bad.append((s_, res))
        R.ob(rule, fn.split("::")[-1], not bad, b.at, f"27 bodies over {{_,0,a}}^3: (terminated, only 0/1, consecutive underscores) as specified" if not bad else
             f"flags of a terminated string deviate for bodies {[(s_, r) for s_, r in bad[:3]]} (expected terminated, only-0/1 iff all of 0/_ , consecutive-underscores iff it contains '__'): a well-formed bit string gets a lexical error or a malformed one none")


def predicate_class(prog, fn, alphabet, arg=1):
    """{c: True/False/'?'} for a `fn(c: char) -> bool` by evaluating its MIR on each character (arg: position of
    the character parameter; 2 for a closure `|c: &char|`, whose first parameter is its environment)"""
    b = prog.body(fn)
    out = {}
    for c in alphabet:
        vals = set()
        for p in SymExec(prog, b, max_paths=50).paths({arg: ("c", "char", c)}):
            r = p.env.get(0)
            vals.add(bool(r[2]) if isinstance(r, tuple) and r[0] == "c" else "?")
        out[c] = vals.pop() if len(vals) == 1 else "?"
    return out


WHITESPACE = [0x09, 0x0A, 0x0B, 0x0C, 0x0D, 0x20, 0x85, 0x200E, 0x200F, 0x2028, 0x2029]     # Unicode Pattern_White_Space (the lexer's documented table)


def whitespace_check(prog, R, rule):
    fn = "oq3_lexer::is_whitespace"
    b = prog.body(fn)
    if b is None:
        R.ob("ANCHOR", fn, False)
        return
    alpha = sorted(set(range(0, 128)) | set(WHITESPACE) | {0xA0, 0x1680, 0x2000, 0x2003, 0x3000, 0xFEFF, 0xB5})
    t = predicate_class(prog, fn, alpha)
    got = sorted(c for c, v in t.items() if v is True)
    amb = [c for c, v in t.items() if v == "?"]
    R.ob(rule, "is_whitespace == Pattern_White_Space", got == WHITESPACE and not amb, b.at,
         f"{len(alpha)} characters evaluated; whitespace = {[hex(c) for c in got]}" if got == WHITESPACE and not amb else
         f"is_whitespace differs from the documented table: missing {[hex(c) for c in WHITESPACE if c not in got]}, extra {[hex(c) for c in got if c not in WHITESPACE]}, undecided {[hex(c) for c in amb][:4]} (a line break or blank of that kind between two tokens becomes an error token)")


def leading_zero_check(prog, R, rule):
    """`Cursor::number('0')` dispatches on the character after the leading 0 (base prefix, more digits, '.', exponent,
    or "just a 0").  Every character that the decimal digit scanner consumes (its table: digits and '_') continues
    the decimal literal, so for each of them the dispatch must reach eat_decimal_digits instead of returning after
    the 0: otherwise `0_5.25` / `0_5e3` / `0_5ns` lex differently from `1_5.25` / `1_5e3` / `1_5ns`."""
    fn = "oq3_lexer::Cursor::number"
    b = prog.body(fn)
    t = table(prog, "oq3_lexer::Cursor::eat_decimal_digits")
    if b is None or t is None:
        R.ob(rule, "number", False, b.at if b else "", "Cursor::number or the decimal digit table not found")
        return
    consumed = sorted(c for c, v in t.items() if v[0])
    bad, n = [], 0
    for c in consumed:
        def model(se, st, tm, cal, args, site, c=c):
            if cal.endswith("Cursor::first"):
                nf = sum(1 for nm, a, bb in st.calls if nm.endswith("Cursor::first"))
                return ("c", "char", c) if nf == 0 else None
            return None
        se = SymExec(prog, b, max_visits=1, max_paths=4000, call_model=model)
        env = se.init_env()
        env[2] = ("c", "char", 48)
        ps = [p for p in se.paths(env) if "__diverged__" not in p.env]      # the debug assertion's panic paths are not results
        n += len(ps)
        for p in ps:
            if not any(nm.endswith("Cursor::eat_decimal_digits") for nm, a, bb in p.calls):
                bad.append(chr(c))
                break
    R.ob(rule, "number:after-leading-zero", not bad and n > 0, b.at,
         f"after a leading 0 every character of the decimal scanner's class {''.join(chr(c) for c in consumed)!r} continues the decimal scan ({n} paths)" if not bad else
         f"after a leading 0 the characters {bad} end the literal although eat_decimal_digits consumes them: `0{bad[0]}5.25` loses its fraction/exponent/unit while `1{bad[0]}5.25` keeps it")


def keyword_prefix_check(prog, R, rule):
    """`Cursor::have_openqasm` decides, after an initial 'O', whether the input continues with "PENQASM" and white
    space.  Tabulated by evaluating its MIR on a model cursor for every proper prefix of the keyword followed by a
    non-matching character: the answer is false and exactly the matching prefix has been consumed (a scanner that
    consumes the mismatching character glues it onto the identifier that is lexed instead: `int O;` -> IDENT "O;");
    for the whole keyword the answer is true iff a white-space character follows, which is not consumed."""
    from sym import deep_strip
    for fn, kw in (("oq3_lexer::Cursor::have_openqasm", "PENQASM"), ("oq3_lexer::Cursor::have_pragma", "ragma")):
        _keyword_prefix_one(prog, R, rule, fn, kw)


def _keyword_prefix_one(prog, R, rule, fn, kw):
    from sym import deep_strip
    b = prog.body(fn)
    if b is None:
        R.ob("ANCHOR", fn, False)
        return
    rows = [(kw[:k] + ";", False, k) for k in range(len(kw) + 1)] + [(kw + " ", True, len(kw)), (kw + "\n", True, len(kw)), (kw[:3] + " ", False, 3), (kw[:2] + "X" + kw[3:] + " ", False, 2)]
    bad = []
    for text, want, nwant in rows:
        chars = [ord(c) for c in text] + [0, 0, 0]

        def model(se, st, t, cal, args, site, chars=chars):
            nb = sum(1 for nm, a, bb in st.calls if nm.endswith("Cursor::bump"))
            if cal.endswith("Cursor::bump"):
                return ("adt", "std::option::Option::Some", (("c", "char", chars[nb]),)) if nb < len(chars) else ("adt", "std::option::Option::None", ())
            if cal.endswith("Cursor::first"):
                return ("c", "char", chars[nb] if nb < len(chars) else 0)
            if cal.endswith("is_whitespace") and args and isinstance(args[0], tuple) and args[0][0] == "c":
                return ("c", "bool", 1 if args[0][2] in (9, 10, 11, 12, 13, 32, 0x85, 0x200E, 0x200F, 0x2028, 0x2029) else 0)
            return None
        res = set()
        for p in SymExec(prog, b, max_visits=9, max_paths=400, call_model=model).paths():
            if "__diverged__" in p.env:
                continue
            r = deep_strip(p.env.get(0))
            nb = sum(1 for nm, a, bb in p.calls if nm.endswith("Cursor::bump"))
            res.add((r[2] if isinstance(r, tuple) and r[0] == "c" else "?", nb, "__cut__" in p.env))
        if res != {(1 if want else 0, nwant, False)}:
            bad.append((text, sorted(res, key=repr)[:3]))
    if bad and all(any(x[0] == "?" or x[2] for x in r_) or len(r_) != 1 for _, r_ in bad):
        # the scanner is written in a form the evaluator cannot run on constants (e.g. a loop over the keyword's
        # characters): decide the structural core instead - a character is consumed only after it has been
        # compared: every bump() is dominated by a branch on first(), and no bump() result is inspected
        from kernel import rv_places, operand_places
        dom = b.dominators()
        firsts = {bi for bi, t in b.calls() if (b.callee_of(t) or "").endswith(("Cursor::first", "Cursor::second"))}
        sbad = []
        for bi, t in b.calls():
            if not (b.callee_of(t) or "").endswith("Cursor::bump"):
                continue
            d = t["dest"]["l"]
            used = False
            for bl in b.blocks:
                for s_ in bl.stmts:
                    if s_["k"] == "assign" and any(pl["l"] == d for pl, _ in rv_places(s_["rv"])):
                        used = True
                tt = bl.term
                if tt["k"] == "switch" and any(pl["l"] == d for pl in operand_places(tt["discr"])):
                    used = True
                if tt["k"] == "call" and any(pl["l"] == d for a in tt["args"] for pl in operand_places(a)):
                    used = True
            if used:
                sbad.append(f"the result of bump() at {t['at']} is inspected: the character is consumed before it is known to continue the keyword")
            elif not any(f in dom[bi] for f in firsts):
                sbad.append(f"bump() at {t['at']} is not preceded by a test of first()")
        R.ob(rule, fn.split("::")[-1], not sbad, b.at, "not evaluable on constants; structurally: every bump() follows a test of first() and its result is not inspected" if not sbad else sbad[0] + f" (`int O;` would lex as IDENT \"O;\")")
        return
    R.ob(rule, fn.split("::")[-1], not bad, b.at, f"{len(rows)} inputs: true iff {kw!r} + white space; consumed = the matching prefix only" if not bad else
         f"for the continuation {bad[0][0]!r} the scanner gives (answer, characters consumed) {bad[0][1]} ({len(bad)} of {len(rows)} rows deviate; '?' = not evaluable): a character that does not continue the keyword is consumed, or the header is recognised without the separating white space")


def first_char_kinds(prog, ch, nxt=None):
    """Token kinds (as shown terms) that Cursor::advance_token can return when the first character is the ASCII
    character `ch`; the guards is_whitespace / is_id_start / is_id_continue on that constant are folded."""
    from sym import deep_strip, show
    b = prog.body("oq3_lexer::Cursor::advance_token")
    if b is None:
        return None

    def model(se, st, t, cal, args, site):
        if cal.endswith("Cursor::bump"):
            nb = sum(1 for nm, a, bb in st.calls if nm.endswith("Cursor::bump"))
            if nb == 0:
                return ("adt", "std::option::Option::Some", (("c", "char", ch),))
        if nxt is not None and cal.endswith("Cursor::first") and not any(nm.endswith(("Cursor::eat_while", "Cursor::eat_identifier")) for nm, a, bb in st.calls) and sum(1 for nm, a, bb in st.calls if nm.endswith("Cursor::bump")) == 1:
            return ("c", "char", nxt)       # the character after the first one (peeked before anything else is consumed)
        if args and isinstance(args[0], tuple) and args[0][0] == "c" and isinstance(args[0][2], int) and args[0][2] < 128:
            c = args[0][2]
            if cal.endswith("oq3_lexer::is_whitespace"):
                return ("c", "bool", 1 if c in WHITESPACE else 0)
            if cal.endswith("oq3_lexer::is_id_start"):
                return ("c", "bool", 1 if (chr(c).isalpha() or c == 95) else 0)
            if cal.endswith("oq3_lexer::is_id_continue"):
                return ("c", "bool", 1 if (chr(c).isalnum() or c == 95) else 0)
        return None
    out = set()
    for p in SymExec(prog, b, max_visits=1, max_paths=3000, call_model=model).paths():
        if "__diverged__" in p.env:
            continue
        r = deep_strip(p.env.get(0))
        k = r[2][0] if isinstance(r, tuple) and r[0] == "call" and r[1].endswith("Token::new") and r[2] else r
        out.add(show(deep_strip(k))[:80])
    return out


def pound_arm_check(prog, R, rule):
    """Only `#pragma` and `#dim` may begin with '#': whatever else starts with '#' is an InvalidIdent token (which
    carries the lexical diagnostic).  The kinds advance_token can return for a first character '#' are enumerated."""
    ks = first_char_kinds(prog, ord("#"))
    b = prog.body("oq3_lexer::Cursor::advance_token")
    if ks is None:
        R.ob("ANCHOR", "oq3_lexer::Cursor::advance_token", False)
        return
    want = {"TokenKind::Pragma", "TokenKind::Dim", "TokenKind::InvalidIdent"}
    R.ob(rule, "tokens starting with '#'", bool(ks) and ks <= want and "TokenKind::InvalidIdent" in ks, b.at,
         f"kinds: {sorted(ks)}" if ks <= want else f"a token starting with '#' can be {sorted(ks - want)}: a word such as `#dx` that is neither #pragma nor #dim is lexed as a valid token and gets no lexical diagnostic")


def at_arm_check(prog, R, rule):
    """`@` begins an annotation line exactly when an identifier start follows it directly (`@bind`); before anything
    else -- a digit (`pow(2) @ x`, `ctrl @2`...), a blank, punctuation -- it is the modifier separator `@`, and the rest
    of the line is lexed as ordinary tokens.  The kinds advance_token returns for '@' + one more character are
    enumerated per class of that character."""
    b = prog.body("oq3_lexer::Cursor::advance_token")
    if b is None:
        R.ob("ANCHOR", "oq3_lexer::Cursor::advance_token", False)
        return
    want = {"a": "Annotation", "Z": "Annotation", "_": "Annotation", "0": "At", "9": "At", " ": "At", "\n": "At", "(": "At", "@": "At", "$": "At", '"': "At"}
    for c2, w in want.items():
        ks = first_char_kinds(prog, ord("@"), ord(c2))
        R.ob(rule, f"'@' followed by {c2!r}", ks == {"TokenKind::" + w}, b.at,
             f"kinds: {sorted(ks or [])}" if ks == {"TokenKind::" + w} else f"'@' directly followed by {c2!r} is lexed as {sorted(ks or [])}, expected {w}: `@` before a digit-initial lexeme swallows the rest of the line into an annotation token, so `pow @ 2` and `pow @2` lex differently")


def line_bounded_check(prog, R, rule):
    """Line-oriented tokens (line comment, pragma, annotation) end at the first line feed: in the scanners that take
    "the rest of the line", every predicate handed to Cursor::eat_while rejects '\\n' (evaluated on the character)."""
    from kernel import norm
    n = 0
    for fn in ("oq3_lexer::Cursor::have_pragma", "oq3_lexer::Cursor::line_comment"):
        b = prog.body(fn)
        if b is None:
            R.ob("ANCHOR", fn, False)
            continue
        bad = []
        # eat_while calls of the scanner itself and of the lexer helpers it calls directly (`eat_until_newline`)
        sites = [(b, bi, t) for bi, t in b.calls()]
        for bi, t in b.calls():
            hc = b.callee_of(t) or ""
            if _lexer_helpers(hc) and prog.body(hc) is not None and hc != fn:
                sites += [(prog.body(hc), bi2, t2) for bi2, t2 in prog.body(hc).calls()]
        for hb, bi, t in sites:
            if not (hb.callee_of(t) or "").endswith("Cursor::eat_while"):
                continue
            n += 1
            ty = (t.get("argtys") or [None, None])[1]
            if isinstance(ty, dict) and "closure" in ty:
                v = predicate_class(prog, norm(ty["closure"]), [10], arg=2).get(10)
                who = "closure"
            elif isinstance(ty, dict) and "fndef" in ty:
                a = t["args"][1]
                f_ = norm(a.get("resolved") or a.get("fn") or ty["fndef"])
                v = predicate_class(prog, f_, [10], arg=1).get(10) if prog.body(f_) else "?"
                who = f_.split("::")[-1]
            else:
                v, who = "?", "unknown predicate"
            if v is not False:
                bad.append(f"{who} at {t['at']} {'accepts' if v is True else 'could not be evaluated on'} a line feed")
        R.ob(rule, fn.split("::")[-1], not bad, b.at, "every eat_while predicate stops at '\\n'" if not bad else
             f"{bad[0]}: the token runs on into the next line (`pragma\\nqubit q;` becomes one PRAGMA token)")
    R.floor("eat_while calls in line-oriented scanners", n, 1)


def unit_suffix_table(prog, R, rule, units):
    """`Cursor::has_timing_or_imaginary_suffix`: after a number, a following `s` is the unit *second* whatever comes
    after it (`(5s)`, `f(7s)`, `2s+3s`): with first() == 's' every path answers true without looking further."""
    fn = "oq3_lexer::Cursor::has_timing_or_imaginary_suffix"
    b = prog.body(fn)
    if b is None:
        R.ob("ANCHOR", fn, False)
        return
    if "s" not in units:
        return

    def model(se, st, t, cal, args, site):
        if cal.endswith("Cursor::first"):
            return ("c", "char", ord("s"))
        return None
    vals = set()
    for p in SymExec(prog, b, max_visits=2, max_paths=400, call_model=model, inline=_lexer_helpers).paths():
        if "__diverged__" in p.env and "__cut__" not in p.env:
            continue
        r = p.env.get(0)
        vals.add(bool(r[2]) if isinstance(r, tuple) and r[0] == "c" and "__cut__" not in p.env else "?")
    R.ob(rule, "a lone `s` after a number is the unit whatever follows", vals == {True}, b.at, "first() == 's' => true on every path" if vals == {True} else
         f"with first() == 's' the answers are {sorted(map(str, vals))}: whether `s` counts as the unit depends on what follows it, so `(5s)` or `2s+3s` keep the `s` inside the number token and the literal loses its unit")
