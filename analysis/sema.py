"""Helpers for rules over oq3_semantics (path tables of the translator, scope dataflow)."""
from collections import defaultdict
from kernel import *
from sym import SymExec, show, deep_strip, strip_transparent, term_contains

S2S = "oq3_semantics::syntax_to_semantics::"
ST = "oq3_semantics::symbols::SymbolTable::"
CTX = "oq3_semantics::context::Context::"
ENTER, EXIT = ST + "enter_scope", ST + "exit_scope"
STMT_ENUM = "oq3_syntax::ast::generated::nodes::Stmt"
EXPR_ENUM = "oq3_syntax::ast::generated::nodes::Expr"

_cache = {}


def small_pure_helper(prog, c):
    """A module-private function of the analyser that only computes a value from its arguments (no Context / symbol
    table parameter, no loop, a handful of blocks): looked into, so that an expression extracted into such a helper
    (`num_params_in(&params)`) is seen as the expression itself."""
    b = prog.body(c)
    if b is None or not c.startswith("oq3_semantics::syntax_to_semantics::") or "{closure" in c or not str(b.vis).startswith("in "):
        return False
    if len(b.blocks) > 14 or any(len(comp) > 1 for comp in b.sccs()):
        return False
    tys = " ".join(str(b.local_ty(i)) for i in range(1, b.nargs + 1))
    return "Context" not in tys and "SymbolTable" not in tys and "SyntaxNode" not in tys and "synast::" not in tys and "oq3_syntax::" not in tys


def paths(prog, fn, max_paths=30000):
    k = (prog.dir, fn)
    if k not in _cache:
        b = prog.body(fn)
        se = SymExec(prog, b, max_paths=max_paths, inline=lambda c: small_pure_helper(prog, c))
        ps = se.paths()
        _cache[k] = (ps, se.truncated)
    return _cache[k]


def errors_on(p):
    """semantic error kinds inserted on a path (in order)"""
    out = []
    for c in p.calls:
        if c[0].endswith("Context::insert_error") or c[0].endswith("SemanticErrorList::insert"):
            k = c[1][1]
            if isinstance(k, tuple) and k[0] == "adt":
                out.append(k[1].rsplit("::", 1)[1])
            else:
                out.append(show(k))
    return out


def arm_of(prog, p, enum, argname):
    """variant name selected by the first `match <arg>` on a path"""
    vs = prog.enum_variants(enum)
    for c in p.conds:
        if c[0] == "switch" and c[2][0] == "eq" and isinstance(c[1], tuple) and c[1][0] == "discr":
            inner = strip_transparent(c[1][1])
            # `let x = arg?; match x {..}`: the scrutinee is branch(arg).0
            if isinstance(inner, tuple) and inner[0] == "field" and inner[2] == 0 and isinstance(inner[1], tuple) and inner[1][0] in ("call", "pure") and inner[1][1].endswith("Try>::branch") and inner[1][2]:
                inner = strip_transparent(inner[1][2][0])
            if isinstance(inner, tuple) and inner[0] == "arg" and inner[2] in (argname, argname + "_maybe"):
                for n, d in vs or []:
                    if d == c[2][1]:
                        return n
    return None


def conds_of(p):
    return [(deep_strip(c[1]), c[2]) for c in p.conds if c[0] == "switch"]


def truth(cond):
    """bool truth of a switch condition on a boolean term"""
    if cond[0] == "eq":
        return cond[1] != 0
    return cond == ("ne", (0,))


def find_cond(p, pred):
    """truth values (list) of boolean conditions whose term satisfies pred"""
    return [truth(c) for t, c in conds_of(p) if pred(t)]


def calls_named(p, suffix):
    return [c for c in p.calls if c[0].endswith(suffix)]


def scope_flow(prog, body):
    """Forward dataflow of the scope stack (tuple of scope-type names) through a body.
    Returns (state at block entry dict, problems list, call sites [(bb, callee, stack)])."""
    vs = prog.enum_variants("oq3_semantics::symbols::ScopeType")
    problems = []
    at_entry = {0: ()}
    work = [0]
    sites = []
    seen_call = set()
    while work:
        bb = work.pop()
        st = at_entry[bb]
        bl = body.blocks[bb]
        t = bl.term
        if t["k"] == "call":
            c = body.callee_of(t)
            if c == ENTER:
                o = origins(prog, body, t["args"][1])
                names = sorted(x[2] for x in o if x[0] == "agg" and x[1].endswith("ScopeType"))
                st = st + (names[0] if len(names) == 1 else "?",)
            elif c == EXIT:
                if not st:
                    problems.append((bb, "exit_scope at depth 0"))
                else:
                    st = st[:-1]
            if bb not in seen_call:
                seen_call.add(bb)
                sites.append((bb, c, st))
                for a in list(t.get("argtys", [])) + list(t.get("rargs", []) or []):
                    if isinstance(a, dict) and "closure" in a:
                        sites.append((bb, "closure:" + norm(a["closure"]), st))
        elif t["k"] == "return":
            if st:
                problems.append((bb, f"return with open scopes {st}"))
        for s_ in body.succ()[bb]:
            if body.blocks[s_].cleanup:
                continue
            if s_ in at_entry:
                if at_entry[s_] != st:
                    problems.append((s_, f"scope stack differs on joining paths: {at_entry[s_]} vs {st}"))
            else:
                at_entry[s_] = st
                work.append(s_)
    return at_entry, problems, sites
