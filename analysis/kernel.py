"""Analysis kernel over oq3facts JSON: bodies, CFG utilities, call graph,
provenance slices, control-dependence.  Python stdlib only.

Nothing here runs repository code: every function inspects the MIR facts that
the rustc driver dumped from /repo's current working tree.
"""
import json, os, re, sys
from collections import defaultdict, deque

CRATES = ["oq3_lexer", "oq3_parser", "oq3_syntax", "oq3_source_file", "oq3_semantics"]

_gen_re = re.compile(r"::<[^<>]*>")
_lt_re = re.compile(r"(?:::)?<'[A-Za-z_0-9]+(?:, ?'[A-Za-z_0-9]+)*>")


_impl_re = re.compile(r"::<impl ([^<>]*)>")


def _impl_sub(m):
    inner = m.group(1)
    if " for " in inner:
        inner = inner.split(" for ", 1)[1]
    inner = inner.strip().lstrip("&")
    return "::" + inner.split("::")[-1]


def norm(path):
    """Strip generic argument lists `::<..>` (nested) and lifetimes from a def path."""
    if path is None:
        return None
    prev = None
    p = _lt_re.sub("", path)
    # `::<impl some::path::Type>::f` -> `::Type::f`   (keeps inherent impls in other modules unambiguous)
    if p.startswith("oq3_"):
        p = _impl_re.sub(_impl_sub, p)
    while prev != p:
        prev = p
        p = _gen_re.sub("", p)
    return p


def short(path):
    p = norm(path) or ""
    return p.split("::", 1)[1] if "::" in p else p


class Block:
    __slots__ = ("idx", "cleanup", "stmts", "term")

    def __init__(self, idx, j):
        self.idx = idx
        self.cleanup = j["cleanup"]
        self.stmts = j["stmts"]
        self.term = j["term"]


class Body:
    def __init__(self, j, crate):
        self.j = j
        self.crate = crate
        self.path = j["path"]
        self.npath = norm(j["path"])
        self.kind = j["kind"]
        self.vis = j.get("vis")
        self.at = j["at"]
        self.exp = j.get("exp", [])
        self.nargs = j["nargs"]
        self.locals = j["locals"]
        self.self_ty = j.get("self_ty")
        self.trait = j.get("trait")
        self.parent = norm(j.get("parent")) if j.get("parent") else None
        self.blocks = [Block(i, b) for i, b in enumerate(j["blocks"])]
        self._succ = None
        self._pred = None
        self._dom = None
        self._pdom = None

    def file(self):
        return self.at.rsplit(":", 2)[0]

    # ---- CFG
    def term_succs(self, b, unwind=False):
        t = self.blocks[b].term
        k = t["k"]
        out = []
        if k == "goto":
            out = [t["target"]]
        elif k == "switch":
            out = [c[1] for c in t["cases"]] + [t["otherwise"]]
        elif k in ("drop", "assert"):
            out = [t["target"]]
        elif k == "call":
            if t["target"] is not None:
                out = [t["target"]]
        elif k == "otherterm":
            out = []
        if unwind and "unwind" in t:
            out = out + [t["unwind"]]
        # dedupe, keep order
        seen = []
        for x in out:
            if x not in seen:
                seen.append(x)
        return seen

    def succ(self):
        if self._succ is None:
            self._succ = [self.term_succs(i) for i in range(len(self.blocks))]
        return self._succ

    def pred(self):
        if self._pred is None:
            p = [[] for _ in self.blocks]
            for i, ss in enumerate(self.succ()):
                for s_ in ss:
                    p[s_].append(i)
            self._pred = p
        return self._pred

    def reachable(self, start=0, succ=None):
        succ = succ or self.succ()
        seen = {start}
        dq = deque([start])
        while dq:
            x = dq.popleft()
            for y in succ[x]:
                if y not in seen:
                    seen.add(y)
                    dq.append(y)
        return seen

    def dominators(self):
        """dom[b] = set of blocks dominating b (normal edges only, reachable blocks)."""
        if self._dom is not None:
            return self._dom
        reach = self.reachable()
        order = self._rpo()
        dom = {b: set(reach) for b in reach}
        dom[0] = {0}
        pred = self.pred()
        changed = True
        while changed:
            changed = False
            for b in order:
                if b == 0:
                    continue
                ps = [p for p in pred[b] if p in reach]
                if not ps:
                    continue
                new = set.intersection(*[dom[p] for p in ps]) | {b}
                if new != dom[b]:
                    dom[b] = new
                    changed = True
        self._dom = dom
        return dom

    def _rpo(self):
        succ = self.succ()
        seen = set()
        post = []
        stack = [(0, iter(succ[0]))]
        seen.add(0)
        while stack:
            node, it = stack[-1]
            advanced = False
            for y in it:
                if y not in seen:
                    seen.add(y)
                    stack.append((y, iter(succ[y])))
                    advanced = True
                    break
            if not advanced:
                post.append(node)
                stack.pop()
        return list(reversed(post))

    def exits(self):
        """Blocks ending in `return` (normal exits)."""
        return [b.idx for b in self.blocks if b.term["k"] == "return"]

    def is_diverging_block(self, b):
        """Block whose terminator never continues normally (panic call, unreachable, resume)."""
        t = self.blocks[b].term
        if t["k"] in ("unreachable", "resume", "terminate"):
            return True
        if t["k"] == "call" and t["target"] is None:
            return True
        return False

    def postdominators(self, panics_exit=False):
        """pdom[b] = blocks that post-dominate b.  With panics_exit=False only
        `return` blocks are exits (post-dominance on non-panicking executions);
        with panics_exit=True diverging blocks are exits too (classical)."""
        if self._pdom is None:
            self._pdom = {}
        if panics_exit in self._pdom:
            return self._pdom[panics_exit]
        reach = self.reachable()
        succ = self.succ()
        exits = [e for e in self.exits() if e in reach]
        if panics_exit:
            exits = exits + [b for b in reach if not succ[b] and b not in exits]
        rsucc = defaultdict(list)
        for b in reach:
            for s_ in succ[b]:
                rsucc[s_].append(b)
        can = set(exits)
        dq = deque(exits)
        while dq:
            x = dq.popleft()
            for y in rsucc[x]:
                if y not in can:
                    can.add(y)
                    dq.append(y)
        pdom = {b: set(can) for b in can}
        for e in exits:
            pdom[e] = {e}
        changed = True
        while changed:
            changed = False
            for b in can:
                if b in exits:
                    continue
                ss = [s_ for s_ in succ[b] if s_ in can]
                if not ss:
                    continue
                new = set.intersection(*[pdom[s_] for s_ in ss]) | {b}
                if new != pdom[b]:
                    pdom[b] = new
                    changed = True
        self._pdom[panics_exit] = pdom
        return pdom

    def back_edges(self):
        dom = self.dominators()
        out = []
        for b in dom:
            for s_ in self.succ()[b]:
                if s_ in dom.get(b, ()):
                    out.append((b, s_))
        return out

    def natural_loops(self):
        """[(header, set(blocks))] merged per header."""
        pred = self.pred()
        reach = self.reachable()
        loops = {}
        for (t, h) in self.back_edges():
            body = {h, t}
            st = [t]
            while st:
                x = st.pop()
                if x == h:
                    continue
                for p in pred[x]:
                    if p in reach and p not in body:
                        body.add(p)
                        st.append(p)
            loops.setdefault(h, set()).update(body)
        return sorted(loops.items())

    def sccs(self):
        """Non-trivial SCCs of the normal-edge CFG (covers irreducible loops too)."""
        succ = self.succ()
        reach = self.reachable()
        index = {}
        low = {}
        onst = set()
        st = []
        out = []
        counter = [0]
        sys.setrecursionlimit(10000)

        def strong(v):
            index[v] = low[v] = counter[0]
            counter[0] += 1
            st.append(v)
            onst.add(v)
            for w in succ[v]:
                if w not in index:
                    strong(w)
                    low[v] = min(low[v], low[w])
                elif w in onst:
                    low[v] = min(low[v], index[w])
            if low[v] == index[v]:
                comp = []
                while True:
                    w = st.pop()
                    onst.discard(w)
                    comp.append(w)
                    if w == v:
                        break
                if len(comp) > 1 or v in succ[v]:
                    out.append(set(comp))

        for v in sorted(reach):
            if v not in index:
                strong(v)
        return out

    # ---- iteration helpers
    def calls(self, include_cleanup=False):
        for b in self.blocks:
            if b.cleanup and not include_cleanup:
                continue
            if b.term["k"] == "call":
                yield b.idx, b.term

    def callee_of(self, term):
        return norm(term.get("resolved") or term.get("callee"))

    def local_ty(self, l):
        t = self.locals[l]["ty"]
        return t if isinstance(t, str) else json.dumps(t)

    def local_name(self, l):
        return self.locals[l]["name"]

    def stmts_with_pos(self, include_cleanup=False):
        for b in self.blocks:
            if b.cleanup and not include_cleanup:
                continue
            for i, s_ in enumerate(b.stmts):
                yield b.idx, i, s_

    # ---- control dependence
    def control_deps(self, b, transitive=True):
        """Set of (branch block, successor taken) on which block b is control
        dependent (classical definition over the CFG whose exits are `return`
        blocks and diverging blocks; unwind edges ignored)."""
        succ = self.succ()
        pdom = self.postdominators(panics_exit=True)
        reach = self.reachable()
        res = set()
        work = [b]
        seen = set()
        while work:
            y = work.pop()
            if y in seen:
                continue
            seen.add(y)
            for x in reach:
                ss = succ[x]
                if len(ss) < 2:
                    continue
                for s_ in ss:
                    pd_s = (y == s_) or (s_ in pdom and y in pdom[s_])
                    pd_x = (x in pdom and y in pdom[x] and y != x)
                    if pd_s and not pd_x:
                        if (x, s_) not in res:
                            res.add((x, s_))
                            if transitive:
                                work.append(x)
        return res

    def _reach_from(self, s_):
        if not hasattr(self, "_rf"):
            self._rf = {}
        if s_ not in self._rf:
            self._rf[s_] = self.reachable(s_)
        return self._rf[s_]


class Program:
    def __init__(self, facts_dir, crates=CRATES):
        self.dir = facts_dir
        self.crates = {}
        self.bodies = {}        # npath -> Body (first) ; duplicates in self.dups
        self.by_crate = defaultdict(list)
        self.adts = {}
        self.consts = {}
        self.fns = {}
        for c in crates:
            with open(os.path.join(facts_dir, c + ".json")) as f:
                j = json.load(f)
            self.crates[c] = j
            for bj in j["bodies"]:
                b = Body(bj, c)
                key = b.npath
                if key in self.bodies:
                    # disambiguate duplicates (e.g. generic impls) by suffix
                    k = 2
                    while f"{key}#{k}" in self.bodies:
                        k += 1
                    key = f"{key}#{k}"
                    b.npath = key
                self.bodies[key] = b
                self.by_crate[c].append(b)
            for a in j["adts"]:
                self.adts[norm(a["path"])] = a
            for k in j["consts"]:
                self.consts[norm(k["path"])] = k
            for fn in j["fns"]:
                self.fns[norm(fn["path"])] = fn
        self._cg = None

    def body(self, npath):
        return self.bodies.get(npath)

    def find(self, suffix, crate=None):
        """Bodies whose normalized path ends with `suffix`."""
        out = []
        for k, b in self.bodies.items():
            if (k == suffix or k.endswith("::" + suffix)) and (crate is None or b.crate == crate):
                out.append(b)
        return out

    def enum_variants(self, adt_npath):
        a = self.adts.get(adt_npath)
        if not a:
            return None
        return [(v["name"], int(v["discr"]) if v["discr"] is not None else i) for i, v in enumerate(a["variants"])]

    # ---- call graph
    def callgraph(self):
        """npath -> set of callee npaths (bodies known to us), including closures
        created in or passed through the body (attached to their creator)."""
        if self._cg is not None:
            return self._cg
        cg = defaultdict(set)
        ext = defaultdict(set)
        for k, b in self.bodies.items():
            for bi, t in b.calls(include_cleanup=False):
                cal = b.callee_of(t)
                if cal in self.bodies:
                    cg[k].add(cal)
                elif cal:
                    ext[k].add(cal)
                # closure / fn item arguments
                for a in list(t.get("gargs", [])) + list(t.get("rargs", [])) + list(t.get("argtys", [])):
                    for c in _closures_in(a):
                        c = norm(c)
                        if c in self.bodies:
                            cg[k].add(c)
                # function items passed as values (`.map(u32::try_from)`): the driver resolves trait methods to impls
                for a in t.get("args", []):
                    if isinstance(a, dict) and a.get("k") == "const" and "fn" in a:
                        c = norm(a.get("resolved") or a["fn"])
                        if c in self.bodies:
                            cg[k].add(c)
                        else:
                            ext[k].add(c)
            for bi, si, s_ in b.stmts_with_pos():
                if s_["k"] == "assign" and s_["rv"]["k"] == "agg" and "closure" in s_["rv"]:
                    c = norm(s_["rv"]["closure"])
                    if c in self.bodies:
                        cg[k].add(c)
                # fn items used as values
                if s_["k"] == "assign":
                    for op in _operands_of_rv(s_["rv"]):
                        if op.get("k") == "const" and "fn" in op:
                            c = norm(op.get("resolved") or op["fn"])
                            if c in self.bodies:
                                cg[k].add(c)
        self._cg = cg
        self._ext = ext
        return cg

    def ext_calls(self):
        self.callgraph()
        return self._ext

    def cone(self, roots):
        cg = self.callgraph()
        seen = set()
        st = [r for r in roots if r in self.bodies]
        while st:
            x = st.pop()
            if x in seen:
                continue
            seen.add(x)
            for y in cg.get(x, ()):
                if y not in seen:
                    st.append(y)
        return seen


def _closures_in(a):
    if isinstance(a, dict):
        if "closure" in a:
            yield a["closure"]
        if "fndef" in a:
            yield a["fndef"]
        for v in a.values():
            if isinstance(v, (dict, list)):
                yield from _closures_in(v)
    elif isinstance(a, list):
        for v in a:
            yield from _closures_in(v)


def _operands_of_rv(rv):
    k = rv["k"]
    if k in ("use", "cast", "repeat"):
        return [rv["op"]]
    if k == "binop":
        return [rv["a"], rv["b"]]
    if k == "unop":
        return [rv["a"]]
    if k == "agg":
        return rv["fields"]
    return []


def operands_of_rv(rv):
    return _operands_of_rv(rv)


def place_base(pl):
    return pl["l"]


def place_fields(pl):
    """List of field indices in the projection (ignoring deref/downcast)."""
    return [p[1] for p in pl["p"] if p[0] == "field"]


def place_str(body, pl):
    s_ = body.local_name(pl["l"]) or f"_{pl['l']}"
    for p in pl["p"]:
        if p[0] == "deref":
            s_ = f"(*{s_})"
        elif p[0] == "field":
            s_ += f".{p[1]}"
        elif p[0] == "downcast":
            s_ += f" as {p[2]}"
        elif p[0] == "index":
            s_ += f"[_{p[1]}]"
        else:
            s_ += f"<{p[0]}>"
    return s_


def field_name(prog, adt_npath, variant, idx):
    a = prog.adts.get(adt_npath)
    if not a:
        return None
    try:
        return a["variants"][variant]["fields"][idx]["name"]
    except Exception:
        return None


# ------------------------------------------------------------------ provenance
TRANSPARENT = (
    "core::clone::Clone::clone", "std::clone::Clone::clone",
    "core::convert::Into::into", "core::convert::From::from",
    "core::convert::AsRef::as_ref", "core::ops::Deref::deref", "core::ops::DerefMut::deref_mut",
    "core::option::Option::unwrap", "core::result::Result::unwrap", "core::option::Option::expect",
    "core::result::Result::expect", "alloc::boxed::Box::new", "alloc::string::ToString::to_string",
    "core::option::Option::as_ref", "core::option::Option::as_mut", "core::option::Option::cloned",
    "core::borrow::Borrow::borrow", "alloc::borrow::ToOwned::to_owned",
    "core::option::Option::unwrap_or", "core::option::Option::unwrap_or_default",
)


def is_transparent(callee, resolved):
    r = norm(resolved) if resolved else None
    if r and (r.startswith("oq3_") or r.startswith("<oq3_")):
        # a function of the repository is looked through only if it is a derived Clone
        return r.endswith(" as std::clone::Clone>::clone")
    for c in (callee, resolved):
        if not c:
            continue
        c = norm(c)
        for t in TRANSPARENT:
            if c == t or c.endswith("::" + t.split("::")[-2] + "::" + t.split("::")[-1]) and t.split("::")[-2] in c:
                return True
        last = c.rsplit("::", 1)[-1]
        if last in ("clone", "into", "as_ref", "deref", "deref_mut", "to_string", "to_owned", "borrow", "as_str", "as_mut", "cloned", "copied") :
            return True
        if c.startswith("<") and (" as core::clone::Clone>::clone" in c or " as std::clone::Clone>::clone" in c):
            return True
    return False


class Defs:
    """Reaching-definition index for a body: for each local, the list of
    definition sites (assign statements / call destinations) writing the whole
    local or a projection of it."""

    def __init__(self, body):
        self.body = body
        self.defs = defaultdict(list)  # local -> [(bb, idx or 'T', kind, payload)]
        for b in body.blocks:
            for i, s_ in enumerate(b.stmts):
                if s_["k"] == "assign":
                    self.defs[s_["lhs"]["l"]].append((b.idx, i, "assign", s_))
            t = b.term
            if t["k"] == "call":
                self.defs[t["dest"]["l"]].append((b.idx, "T", "call", t))


def origins(prog, body, operand_or_place, max_depth=40, through_calls=True, _defs=None):
    """Backward data-flow slice (flow-insensitive over defs of each local) from
    an operand/place down to its origins.  Returns a set of tuples:
      ('call', callee_npath, site_bb)      result of a non-transparent call
      ('const', ty, repr)
      ('arg', index, name)
      ('agg', adt, vname, site_bb)
      ('binop', op, site_bb)  /  ('cast', to, site_bb) ...
    Transparent calls (clone/into/unwrap/...) are looked through (arg 0)."""
    defs = _defs or Defs(body)
    out = set()
    seen = set()

    def visit_local(l, depth):
        if (l,) in seen:
            return
        seen.add((l,))
        if 1 <= l <= body.nargs:
            out.add(("arg", l, body.local_name(l)))
        if depth > max_depth:
            out.add(("deep", l, None))
            return
        for (bb, idx, kind, payload) in defs.defs.get(l, []):
            if body.blocks[bb].cleanup:
                continue
            if kind == "assign":
                visit_rv(payload["rv"], bb, depth + 1)
            else:
                t = payload
                cal = body.callee_of(t)
                if through_calls and is_transparent(t.get("callee"), t.get("resolved")) and t["args"]:
                    visit_op(t["args"][0], depth + 1)
                else:
                    out.add(("call", cal, bb))

    def visit_op(op, depth):
        k = op.get("k")
        if k in ("copy", "move"):
            visit_local(op["pl"]["l"], depth)
        elif k == "const":
            if "fn" in op:
                out.add(("fnitem", norm(op["fn"]), None))
            elif "promoted" in op:
                # a promoted constant (e.g. `&"stdgates.inc"`, `&Type::Gate(3, 1)`): its origins are the constants it is built from
                try:
                    pj = body.j["promoted"][op["promoted"]]
                    for bl_ in pj["blocks"]:
                        for s_ in bl_["stmts"]:
                            if s_["k"] == "assign":
                                rv_ = s_["rv"]
                                if rv_["k"] == "agg" and "adt" in rv_:
                                    out.add(("agg", norm(rv_["adt"]), rv_["vname"], None))
                                for o_ in _operands_of_rv(rv_):
                                    if o_.get("k") == "const" and "promoted" not in o_:
                                        out.add(("const", o_["ty"], o_.get("bits", o_.get("str", "?"))))
                except Exception:
                    out.add(("const", op["ty"], "?promoted"))
            else:
                rep = op.get("bits", op.get("str", op.get("item", op.get("dbg", "zst" if op.get("zst") else "?"))))
                out.add(("const", op["ty"], rep))

    def visit_rv(rv, bb, depth):
        k = rv["k"]
        if k == "use":
            visit_op(rv["op"], depth)
        elif k in ("ref", "rawptr", "discr"):
            visit_local(rv["pl"]["l"], depth)
        elif k == "cast":
            visit_op(rv["op"], depth)
        elif k == "binop":
            out.add(("binop", rv["op"], bb))
            visit_op(rv["a"], depth)
            visit_op(rv["b"], depth)
        elif k == "unop":
            visit_op(rv["a"], depth)
        elif k == "agg":
            if "adt" in rv:
                out.add(("agg", norm(rv["adt"]), rv["vname"], bb))
            for f in rv["fields"]:
                visit_op(f, depth)
        elif k == "repeat":
            visit_op(rv["op"], depth)
        else:
            out.add(("other", k, bb))

    if "k" in operand_or_place:
        visit_op(operand_or_place, 0)
    else:
        visit_local(operand_or_place["l"], 0)
    return out


def call_origins(prog, body, operand, **kw):
    """Only the names of the calls an operand's value originates from."""
    return {o[1] for o in origins(prog, body, operand, **kw) if o[0] == "call"}


# ------------------------------------------------------------------ types / fields
_ref_re = re.compile(r"^&(?:'[A-Za-z_0-9]+ )?(?:mut )?")


def ty_strip_refs(t):
    if not isinstance(t, str):
        return t
    prev = None
    while prev != t:
        prev = t
        t = _ref_re.sub("", t)
        if t.startswith("*const "):
            t = t[7:]
        if t.startswith("*mut "):
            t = t[5:]
    return t


def ty_adt(t):
    """ADT path of a (possibly referenced) type string, generic args stripped."""
    if not isinstance(t, str):
        return None
    t = ty_strip_refs(t)
    depth = 0
    out = []
    for ch in t:
        if ch == "<":
            depth += 1
        elif ch == ">":
            depth -= 1
        elif depth == 0:
            out.append(ch)
    return "".join(out)


def place_field_path(prog, body, pl):
    """[(adt_npath, variant_idx, field_idx, field_name)] for each field step."""
    cur = body.local_ty(pl["l"])
    variant = 0
    out = []
    for p in pl["p"]:
        if p[0] == "deref":
            cur = ty_strip_refs(cur) if isinstance(cur, str) else cur
            # Box<T> deref
            if isinstance(cur, str) and cur.startswith("std::boxed::Box<"):
                cur = cur[len("std::boxed::Box<"):-1]
        elif p[0] == "downcast":
            variant = p[1]
        elif p[0] == "field":
            adt = ty_adt(cur)
            name = field_name(prog, adt, variant, p[1])
            out.append((adt, variant, p[1], name))
            cur = p[2]
            variant = 0
        else:
            # index etc: element type unknown from the string; stop tracking
            cur = None
            variant = 0
    return out


def place_touches_field(prog, body, pl, adt, fname):
    for (a, v, i, nme) in place_field_path(prog, body, pl):
        if a == adt and nme == fname:
            return True
    return False


def operand_places(op):
    if op.get("k") in ("copy", "move"):
        return [op["pl"]]
    return []


def rv_places(rv):
    """(place, mode) pairs read by an rvalue; mode in read|ref|refmut|rawptr|discr"""
    k = rv["k"]
    out = []
    if k == "ref":
        out.append((rv["pl"], "refmut" if rv["mut"] else "ref"))
    elif k == "rawptr":
        out.append((rv["pl"], "rawptr"))
    elif k == "discr":
        out.append((rv["pl"], "discr"))
    else:
        for op in _operands_of_rv(rv):
            for pl in operand_places(op):
                out.append((pl, "move" if op["k"] == "move" else "read"))
    return out


def field_sites(prog, adt, fname, crates=None, include_cleanup=False):
    """All places in all bodies that go through field `fname` of `adt`.
    Yields dict(body, bb, idx, mode, stmt) with mode in write|refmut|ref|read|move|rawptr|discr|drop|callarg."""
    for k, b in prog.bodies.items():
        if crates and b.crate not in crates:
            continue
        for bl in b.blocks:
            if bl.cleanup and not include_cleanup:
                continue
            for i, s_ in enumerate(bl.stmts):
                if s_["k"] == "assign":
                    if place_touches_field(prog, b, s_["lhs"], adt, fname):
                        yield dict(body=b, bb=bl.idx, idx=i, mode="write", stmt=s_, at=s_["at"])
                    for pl, mode in rv_places(s_["rv"]):
                        if place_touches_field(prog, b, pl, adt, fname):
                            yield dict(body=b, bb=bl.idx, idx=i, mode=mode, stmt=s_, at=s_["at"])
                elif s_["k"] == "setdiscr":
                    if place_touches_field(prog, b, s_["lhs"], adt, fname):
                        yield dict(body=b, bb=bl.idx, idx=i, mode="write", stmt=s_, at=s_["at"])
            t = bl.term
            if t["k"] == "call":
                for a in t["args"]:
                    for pl in operand_places(a):
                        if place_touches_field(prog, b, pl, adt, fname):
                            yield dict(body=b, bb=bl.idx, idx="T", mode="move" if a["k"] == "move" else "read", stmt=t, at=t["at"])
                if place_touches_field(prog, b, t["dest"], adt, fname):
                    yield dict(body=b, bb=bl.idx, idx="T", mode="write", stmt=t, at=t["at"])
            elif t["k"] == "drop":
                if place_touches_field(prog, b, t["pl"], adt, fname):
                    yield dict(body=b, bb=bl.idx, idx="T", mode="drop", stmt=t, at=t["at"])
            elif t["k"] == "switch":
                for pl in operand_places(t["discr"]):
                    if place_touches_field(prog, b, pl, adt, fname):
                        yield dict(body=b, bb=bl.idx, idx="T", mode="read", stmt=t, at=t["at"])


def local_uses(body, l, include_cleanup=False):
    """Where a local is used (not defined): list of dict(bb, idx, kind, ...).
    kind: 'callarg' (callee, argi, term) | 'rv' (stmt, mode) | 'switch' | 'drop' | 'ret' """
    out = []
    for bl in body.blocks:
        if bl.cleanup and not include_cleanup:
            continue
        for i, s_ in enumerate(bl.stmts):
            if s_["k"] == "assign":
                for pl, mode in rv_places(s_["rv"]):
                    if pl["l"] == l:
                        out.append(dict(bb=bl.idx, idx=i, kind="rv", mode=mode, stmt=s_, place=pl))
                # writes through a projection of l (e.g. (*l).f = x) count as uses of l
                if s_["lhs"]["l"] == l and s_["lhs"]["p"]:
                    out.append(dict(bb=bl.idx, idx=i, kind="store_through", stmt=s_, place=s_["lhs"]))
        t = bl.term
        if t["k"] == "call":
            for ai, a in enumerate(t["args"]):
                for pl in operand_places(a):
                    if pl["l"] == l:
                        out.append(dict(bb=bl.idx, idx="T", kind="callarg", callee=body.callee_of(t), argi=ai, term=t, place=pl))
            if t["dest"]["l"] == l and t["dest"]["p"]:
                out.append(dict(bb=bl.idx, idx="T", kind="store_through", stmt=t, place=t["dest"]))
        elif t["k"] == "switch":
            for pl in operand_places(t["discr"]):
                if pl["l"] == l:
                    out.append(dict(bb=bl.idx, idx="T", kind="switch", term=t))
        elif t["k"] == "drop":
            if t["pl"]["l"] == l:
                out.append(dict(bb=bl.idx, idx="T", kind="drop", term=t))
        elif t["k"] == "assert":
            for pl in operand_places(t["cond"]):
                if pl["l"] == l:
                    out.append(dict(bb=bl.idx, idx="T", kind="assert", term=t))
    if l == 0:
        out.append(dict(bb=None, idx=None, kind="ret"))
    return out


def forward_sinks(prog, body, l, max_depth=20):
    """Follow a value forward through plain moves/copies/reborrows/transparent
    calls to the calls that finally consume it.  Returns list of
    ('call', callee, argi, bb) | ('ret',) | ('store', place_str, bb) | ('switch', bb) | ('other', desc, bb)."""
    out = []
    seen = set()

    def go(x, depth):
        if x in seen or depth > max_depth:
            return
        seen.add(x)
        for u in local_uses(body, x):
            k = u["kind"]
            if k == "callarg":
                t = u["term"]
                if is_transparent(t.get("callee"), t.get("resolved")) and u["argi"] == 0 and not t["dest"]["p"]:
                    go(t["dest"]["l"], depth + 1)
                else:
                    out.append(("call", u["callee"], u["argi"], u["bb"]))
            elif k == "rv":
                s_ = u["stmt"]
                rv = s_["rv"]
                if rv["k"] in ("use", "ref", "cast", "rawptr") and not s_["lhs"]["p"]:
                    go(s_["lhs"]["l"], depth + 1)
                elif rv["k"] in ("use", "ref") and s_["lhs"]["p"]:
                    out.append(("store", place_str(body, s_["lhs"]), u["bb"]))
                elif rv["k"] == "agg":
                    if not s_["lhs"]["p"]:
                        out.append(("agg", rv.get("adt") and norm(rv["adt"]) + "::" + rv["vname"] or "tuple", u["bb"]))
                        go(s_["lhs"]["l"], depth + 1)
                    else:
                        out.append(("store", place_str(body, s_["lhs"]), u["bb"]))
                else:
                    out.append(("other", rv["k"], u["bb"]))
            elif k == "switch":
                out.append(("switch", u["bb"]))
            elif k == "ret":
                out.append(("ret",))
            elif k == "store_through":
                out.append(("store_through", place_str(body, u["place"]), u["bb"]))
            elif k == "drop":
                pass
            else:
                out.append(("other", k, u["bb"]))

    go(l, 0)
    return out


def const_of(op):
    """Python value of a constant operand (int for scalars, str for &str) or None."""
    if op.get("k") != "const":
        return None
    if "int" in op:
        return int(op["int"])
    if "bits" in op:
        return int(op["bits"])
    if "str" in op:
        return op["str"]
    return None


def site_of(x):
    return x.get("at", "") if isinstance(x, dict) else ""
