"""Check framework: fact extraction (+ byte-identical cache), obligation
recording, known-finding matching, evidence writing, VIOLATION lines."""
import hashlib, json, os, shutil, subprocess, sys, tempfile, time

VERIF = os.path.dirname(os.path.dirname(os.path.abspath(__file__)))
REPO = os.environ.get("OQ3_REPO", "/repo")
CACHE = os.environ.get("OQ3_CACHE") or os.path.join(VERIF, ".cache")
SELFTEST_OUT = os.environ.get("OQ3_SELFTEST_OUT")

sys.path.insert(0, os.path.join(VERIF, "analysis"))
from kernel import Program, CRATES  # noqa: E402


def tree_hash(repo):
    h = hashlib.sha256()
    files = []
    for root, dirs, fs in os.walk(os.path.join(repo, "crates")):
        dirs[:] = sorted(d for d in dirs if d not in ("target", ".git", "snapshots"))
        for f in sorted(fs):
            if f.endswith((".rs", ".toml", ".ungram", ".lock")):
                files.append(os.path.join(root, f))
    for extra in ("Cargo.toml", "Cargo.lock"):
        p = os.path.join(repo, extra)
        if os.path.exists(p):
            files.append(p)
    for p in files:
        h.update(os.path.relpath(p, repo).encode())
        h.update(b"\0")
        with open(p, "rb") as f:
            h.update(f.read())
        h.update(b"\0")
    # the driver itself is part of the key
    drv = os.path.join(VERIF, "driver", "src", "main.rs")
    with open(drv, "rb") as f:
        h.update(f.read())
    return h.hexdigest()


def _complete(d):
    try:
        return os.path.isdir(d) and all(os.path.getsize(os.path.join(d, c + ".json")) > 0 for c in CRATES)
    except OSError:
        return False


def get_facts(repo=REPO):
    """Return (facts_dir, tree_hash, cache_hit, error)."""
    th = tree_hash(repo)
    os.makedirs(CACHE, exist_ok=True)
    d = os.path.join(CACHE, th)
    if _complete(d):
        return d, th, True, None
    # one extraction per tree at a time: checks started in parallel on the same tree wait for the first one's facts
    # instead of replacing the directory another process is reading
    import fcntl, time
    lock = open(os.path.join(CACHE, th + ".lock"), "w")
    try:
        fcntl.flock(lock, fcntl.LOCK_EX)
        if _complete(d):
            return d, th, True, None
        tmp = tempfile.mkdtemp(prefix="facts.", dir=CACHE)
        r = subprocess.run([os.path.join(VERIF, "bin", "extract_facts.sh"), repo, tmp], capture_output=True, text=True)
        if r.returncode != 0:
            log = ""
            try:
                log = open(os.path.join(tmp, "cargo.log")).read()[-4000:]
            except Exception:
                pass
            shutil.rmtree(tmp, ignore_errors=True)
            return None, th, False, (r.stderr + "\n" + log)
        try:
            if os.path.isdir(d):
                shutil.rmtree(d, ignore_errors=True)
            os.rename(tmp, d)
        except OSError:
            d = tmp
    finally:
        try:
            fcntl.flock(lock, fcntl.LOCK_UN)
            lock.close()
        except OSError:
            pass
    # prune old caches (keep the 6 newest; never one touched in the last 15 minutes: it may belong to a check that is running)
    now = time.time()
    ents = sorted((os.path.getmtime(os.path.join(CACHE, e)), e) for e in os.listdir(CACHE) if e != "ai" and not e.endswith(".lock"))
    aid = os.path.join(CACHE, "ai")
    if os.path.isdir(aid):
        aents = sorted((os.path.getmtime(os.path.join(aid, e)), e) for e in os.listdir(aid))
        for mt, e in aents[:-8]:
            if now - mt < 900:
                continue
            try:
                os.remove(os.path.join(aid, e))
            except OSError:
                pass
    for mt, e in ents[:-6]:
        if now - mt < 900:
            continue
        shutil.rmtree(os.path.join(CACHE, e), ignore_errors=True)
        try:
            os.remove(os.path.join(CACHE, e + ".lock"))
        except OSError:
            pass
    return d, th, False, None


class Result:
    def __init__(self, pid, tier):
        self.pid = pid
        self.tier = tier
        self.obls = []       # dicts
        self.info = {}
        self.not_decided = []
        self.assumptions = []
        self.explanation = ""
        self.counters = {}

    def ob(self, rule, key, ok, site="", detail="", status=None):
        """Record one obligation. key must not contain line numbers."""
        st = status or ("discharged" if ok else "violation")
        self.obls.append({"rule": rule, "key": f"{rule}:{key}", "ok": bool(ok), "status": st, "site": site, "detail": detail})
        return ok

    def reviewed(self, rule, key, site="", detail=""):
        self.obls.append({"rule": rule, "key": f"{rule}:{key}", "ok": True, "status": "reviewed", "site": site, "detail": detail})

    def anchor(self, prog, npath):
        b = prog.body(npath)
        if b is None:
            self.ob("ANCHOR", npath, False, "", f"anchor function {npath} not found in the current tree (renamed/removed): rule instances keyed on it cannot be evaluated; failing closed")
        return b

    def premises(self, prog, rule, specs, why):
        """The argument of this property leans on obligations of another rule module ("<PID>:<rule prefix>"):
        re-evaluate them on this tree and fail here too when one of them fails (other than a listed known
        finding of that property, which is reported there)."""
        import inventory
        if self.tier == "premise":
            return          # this module is itself being evaluated as somebody's premise: no nested premises (no cycles)
        bad = inventory.premise_failures(prog, self.pid, specs)
        for k in bad:
            self.ob(rule, k, False, "", f"premise of {self.pid} violated ({why})")
        if not bad:
            self.ob(rule, "+".join(specs), True, "", f"premises hold on this tree ({why})")

    def floor(self, name, count, minimum):
        self.counters[name] = count
        self.ob("FLOOR", name, count >= minimum, "", f"{name}: found {count}, confirmed floor {minimum}")

    def count(self, name, v=1):
        self.counters[name] = self.counters.get(name, 0) + v


def load_known():
    p = os.path.join(VERIF, "known_findings.json")
    if not os.path.exists(p):
        return []
    return json.load(open(p))


def rule_instance_floors(res):
    """A rule that lost most of its instances (renamed anchor, changed idiom, helper that no longer recognises the
    code) would pass vacuously: compare the per-rule instance counts with the frozen floors."""
    p = os.path.join(VERIF, "spec", "rule_floors.json")
    if not os.path.exists(p) or any(o["rule"] == "AI-BUDGET" for o in res.obls):
        return
    floors = json.load(open(p)).get(res.pid, {})
    have = {}
    for o in res.obls:
        have[o["rule"]] = have.get(o["rule"], 0) + 1
    for r, fl in sorted(floors.items()):
        n = have.get(r, 0)
        res.ob("RULE-INSTANCES", r, n >= fl, "", f"rule {r}: {n} instances evaluated on this tree, frozen floor {fl}" + ("" if n >= fl else ": the rule no longer finds the constructs it was written for (anchor renamed / idiom changed); its verdict would be vacuous"))


def finish(res, t0, th, cache_hit, prog_stats, seed):
    rule_instance_floors(res)
    known = [k for k in load_known() if k.get("property") == res.pid and k.get("status") == "known"]
    known_keys = {k["key"]: k for k in known}
    viol = []
    kf = []
    for o in res.obls:
        if not o["ok"]:
            if o["key"] in known_keys:
                o["status"] = "known_finding"
                kf.append((o, known_keys[o["key"]]))
            else:
                viol.append(o)
    if SELFTEST_OUT:
        # evaluation of a scratch variant on behalf of the thorough tier's self-test: report keys only
        with open(SELFTEST_OUT, "w") as f:
            json.dump({"violations": sorted({o["key"] for o in viol})}, f)
        return 1 if viol else 0
    outdir = os.path.join(VERIF, "out", res.pid)
    shutil.rmtree(outdir, ignore_errors=True)
    os.makedirs(outdir, exist_ok=True)
    seen_kf = set()
    for o, k in kf:
        if o["key"] in seen_kf:
            continue
        seen_kf.add(o["key"])
        print(f"KNOWN-FINDING: property={res.pid} {o['key']} {k.get('what','')} [{o['site']}]")
    for i, o in enumerate(viol):
        p = os.path.join(outdir, f"{i}.json")
        with open(p, "w") as f:
            json.dump({"property": res.pid, "obligation": o, "tree_hash": th}, f, indent=1)
        print(f"VIOLATION property={res.pid} replay={p}")
        print(f"  rule={o['rule']} key={o['key']}\n  site={o['site']}\n  {o['detail']}")
    n_ob = len(res.obls)
    n_dis = sum(1 for o in res.obls if o["status"] == "discharged")
    n_rev = sum(1 for o in res.obls if o["status"] == "reviewed")
    distinct = len({o["key"] for o in res.obls if o["status"] in ("discharged", "known_finding", "violation")})
    samples = []
    by_rule = {}
    for o in res.obls:
        by_rule.setdefault(o["rule"], []).append(o)
    for r_, os_ in sorted(by_rule.items()):
        for o in os_[:2]:
            samples.append({"rule": o["rule"], "key": o["key"], "site": o["site"], "status": o["status"], "detail": o["detail"][:300]})
    samples = samples[:40]
    rule_counts = {r_: {"total": len(v), "discharged": sum(1 for o in v if o["status"] == "discharged"), "reviewed": sum(1 for o in v if o["status"] == "reviewed"), "known_finding": sum(1 for o in v if o["status"] == "known_finding"), "violation": sum(1 for o in v if o["status"] == "violation")} for r_, v in sorted(by_rule.items())}
    ev = {
        "property_id": res.pid,
        "tier": res.tier,
        "seed": seed,
        "level": "other",
        "coverage": {
            "explanation": res.explanation,
            "obligations": n_ob,
            "discharged": n_dis,
            "reviewed": n_rev,
            "known_findings": len(seen_kf),
            "evaluations": n_ob,
            "distinct_nontrivial": distinct,
            "rule": "one evaluation = one rule instance (obligation) evaluated on the MIR of /repo's current tree; distinct_nontrivial counts distinct obligation keys that were decided by analysis (discharged / finding / violation), excluding reviewed table entries",
            "samples": samples or [{"note": "no obligations"}],
            "per_rule": rule_counts,
            "counters": res.counters,
            "info": res.info,
            "tree_hash": th,
            "facts_cache_hit": cache_hit,
            "program": prog_stats,
            "not_decided": res.not_decided,
            "checker_cmd": f"/verif/bin/check {res.pid} {res.tier}",
            "exhaustive": False,
        },
        "assumptions": res.assumptions,
        "wall_s": round(time.time() - t0, 3),
        "violations": len(viol),
    }
    evdir = os.path.join(VERIF, "evidence") if os.path.realpath(REPO) == "/repo" else os.path.join(VERIF, "out", "variant_evidence")   # runs on a scratch variant never touch the evidence of /repo
    os.makedirs(evdir, exist_ok=True)
    with open(os.path.join(evdir, res.pid + ".json"), "w") as f:
        json.dump(ev, f, indent=1, sort_keys=False)
    print(f"[{res.pid}] obligations={n_ob} discharged={n_dis} reviewed={n_rev} known_findings={len(seen_kf)} violations={len(viol)} wall={ev['wall_s']}s")
    return 1 if viol else 0


def fail_no_facts(pid, tier, t0, th, err, seed):
    if SELFTEST_OUT:
        with open(SELFTEST_OUT, "w") as f:
            json.dump({"violations": ["BUILD"], "build_error": True, "err": (err or "")[-400:]}, f)
        return 1
    outdir = os.path.join(VERIF, "out", pid)
    os.makedirs(outdir, exist_ok=True)
    p = os.path.join(outdir, "build_error.json")
    with open(p, "w") as f:
        json.dump({"property": pid, "error": err, "tree_hash": th}, f, indent=1)
    print(f"VIOLATION property={pid} replay={p}")
    print("  /repo does not compile (or facts could not be extracted); nothing can be decided:\n" + (err or "")[-2000:])
    ev = {"property_id": pid, "tier": tier, "seed": seed, "level": "other",
          "coverage": {"explanation": "fact extraction failed; no obligation evaluated", "obligations": 0, "discharged": 0, "evaluations": 0, "distinct_nontrivial": 0, "samples": [{"error": (err or "")[-500:]}]},
          "assumptions": [], "wall_s": round(time.time() - t0, 3), "violations": 1}
    evdir = os.path.join(VERIF, "evidence") if os.path.realpath(REPO) == "/repo" else os.path.join(VERIF, "out", "variant_evidence")
    os.makedirs(evdir, exist_ok=True)
    with open(os.path.join(evdir, pid + ".json"), "w") as f:
        json.dump(ev, f, indent=1)
    return 1


def main(argv):
    import importlib
    if len(argv) < 2:
        print("usage: check <ID> quick|thorough | check <ID> --replay <file>")
        return 2
    pid = argv[0]
    t0 = time.time()
    seed = int(os.environ.get("VERIF_SEED", "0") or 0)
    if argv[1] == "--replay":
        j = json.load(open(argv[2]))
        want = j.get("obligation", {}).get("key")
        tier = "quick"
    else:
        tier = argv[1]
        want = None
    d, th, hit, err = get_facts()
    if d is None:
        return fail_no_facts(pid, tier, t0, th, err, seed)
    prog = Program(d)
    sys.path.insert(0, os.path.join(VERIF, "analysis", "rules"))
    mod = importlib.import_module(pid)
    res = Result(pid, tier)
    import grammar_run, gram
    try:
        mod.run(prog, res)
    except grammar_run.AIUnavailable as e:
        gram.ai_unavailable(res, e)      # fail closed: the rules of this module that need the interpreter were not evaluated
    except Exception as e:               # a rule met a shape of the code it cannot interpret: fail closed, with the place
        import traceback
        tb = traceback.extract_tb(e.__traceback__)
        where = "; ".join(f"{os.path.basename(f.filename)}:{f.lineno} {f.name}" for f in tb[-3:])
        res.ob("CHECKER-ERROR", f"{pid} rules could not be evaluated on this tree", False, "",
               f"{type(e).__name__}: {e} at {where}. A rule anchored on a specific shape of the code (a field, an enum variant, an argument position) met a tree it does not understand; "
               "the obligations recorded before this point stand, the remaining ones were not evaluated")
    stats = {c: len(prog.by_crate[c]) for c in CRATES}
    stats["bodies_total"] = sum(stats.values())
    if want is not None:
        for o in res.obls:
            if o["key"] == want:
                print(json.dumps(o, indent=1))
                return 0 if o["ok"] else 1
        print("obligation no longer exists on this tree:", want)
        return 1
    if tier == "thorough" and not SELFTEST_OUT:
        import selftest
        known = {k["key"] for k in load_known() if k.get("property") == pid and k.get("status") == "known"}
        base = {o["key"] for o in res.obls if not o["ok"]} - set()
        st = selftest.run(pid, REPO, base)
        res.info["selftest"] = st
        print(f"[{pid}] self-test of the rules on {st['cases']} recorded breaking changes (scratch copies of the current tree): detected {st['detected']}" + (f", missed {st['missed']}" if st.get("missed") else "") + (f", not applicable {st['stale']}" if st.get("stale") else ""))
    return finish(res, t0, th, hit, stats, seed)


if __name__ == "__main__":
    sys.exit(main(sys.argv[1:]))
