"""Thorough tier, part 2: detection self-test of the property's rules.

For every recorded breaking change of this property
  * selftest/revert/<commit>.diff   reverse diff of a "fix:" commit; the fixed
                                    known-findings entries name the obligation
                                    keys that must come back,
  * selftest/mutants/<ID>/*.diff    hand-written single-site mutants,
  * seeded/<ID>/<n>/patch.diff      changes written by independent sub-agents
                                    that only saw the property text,
a scratch copy of /repo's *current* working tree is made outside /repo and
/verif, the change is applied, facts are extracted from the scratch copy with
the same driver, and the same rule module is evaluated on it.  Nothing of the
scratch copy is executed: this is the same static analysis, run on a variant.
A change counts as detected when the rules report at least one violation that
is not reported on the unchanged tree (for reverts: the recorded key).

Results go to the evidence file only.  A miss is a statement about the
checker, not about /repo, so it never produces a VIOLATION line.
"""
import json, os, shutil, subprocess, sys, tempfile
from concurrent.futures import ThreadPoolExecutor

VERIF = os.path.dirname(os.path.dirname(os.path.abspath(__file__)))


def cases_for(pid):
    """[(name, diff path, kind, expected keys or None)]"""
    out = []
    known = json.load(open(os.path.join(VERIF, "known_findings.json")))
    by_commit = {}
    for e in known:
        if e.get("status") == "fixed" and e.get("property") == pid:
            by_commit.setdefault(e["commit"], []).append(e["key"])
    for c, keys in sorted(by_commit.items()):
        p = os.path.join(VERIF, "selftest", "revert", c + ".diff")
        if os.path.exists(p):
            out.append((f"revert-{c}", p, "revert", sorted(keys)))
    md = os.path.join(VERIF, "selftest", "mutants", pid)
    if os.path.isdir(md):
        for f in sorted(os.listdir(md)):
            if f.endswith(".diff"):
                out.append((f"mutant-{f[:-5]}", os.path.join(md, f), "mutant", None))
    sd = os.path.join(VERIF, "seeded")
    if os.path.isdir(sd):
        for d in sorted(os.listdir(sd)):
            mp = os.path.join(sd, d, "meta.json")
            pp = os.path.join(sd, d, "patch.diff")
            if not (os.path.exists(mp) and os.path.exists(pp)):
                continue
            try:
                meta = json.load(open(mp))
            except Exception:
                continue
            if pid == meta.get("property") or pid in meta.get("detected_by", []):
                exp = "miss" if (pid == meta.get("property") and pid not in meta.get("detected_by", [])) else None
                out.append((f"seeded-{d}", pp, "seeded" if exp is None else "seeded-outside-claim", None))
    return out


def run_case(pid, case, repo):
    name, diff, kind, exp = case
    D = tempfile.mkdtemp(prefix="oq3st.")
    try:
        src = os.path.join(D, "src")
        r = subprocess.run(["rsync", "-a", "--exclude", "target", "--exclude", ".git", repo.rstrip("/") + "/", src + "/"], capture_output=True, text=True)
        if r.returncode != 0:
            return dict(name=name, kind=kind, status="error", detail="copy failed: " + r.stderr[-200:])
        r = subprocess.run(["patch", "-p1", "-s", "-i", diff], cwd=src, capture_output=True, text=True)
        if r.returncode != 0:
            return dict(name=name, kind=kind, status="stale", detail="patch no longer applies to the current tree: " + (r.stdout + r.stderr)[-200:])
        resf = os.path.join(D, "res.json")
        env = dict(os.environ, OQ3_REPO=src, OQ3_SELFTEST_OUT=resf, OQ3_CACHE=os.path.join(D, "cache"))
        r = subprocess.run([sys.executable, os.path.join(VERIF, "analysis", "framework.py"), pid, "quick"], env=env, capture_output=True, text=True)
        if not os.path.exists(resf):
            return dict(name=name, kind=kind, status="error", detail=(r.stdout + r.stderr)[-300:])
        res = json.load(open(resf))
        return dict(name=name, kind=kind, status="ran", viol=res["violations"], build_error=res.get("build_error", False), expected=exp)
    finally:
        shutil.rmtree(D, ignore_errors=True)


def run(pid, repo, baseline_viol_keys, jobs=8):
    cases = cases_for(pid)
    out = []
    if not cases:
        return {"cases": 0, "detected": 0, "results": []}
    with ThreadPoolExecutor(max_workers=jobs) as ex:
        rs = list(ex.map(lambda c: run_case(pid, c, repo), cases))
    det = 0
    for r in rs:
        if r["status"] == "ran":
            new = [k for k in r.pop("viol") if k not in baseline_viol_keys]
            exp = r.pop("expected")
            if r.get("build_error"):
                r["status"] = "does-not-compile"
            elif exp:
                hit = [k for k in exp if k in new]
                r["status"] = "detected" if len(hit) == len(exp) else ("detected-other-key" if new else "MISSED")
                r["expected_keys"] = exp
            else:
                r["status"] = "detected" if new else "MISSED"
            r["new_violation_keys"] = new[:6]
            r["n_new"] = len(new)
            if r["status"].startswith("detected"):
                det += 1
        out.append(r)
    return {"cases": len(cases), "detected": det, "missed": [r["name"] for r in out if r["status"] == "MISSED"],
            "stale": [r["name"] for r in out if r["status"] in ("stale", "error", "does-not-compile")], "results": out}
