"""C03 — semantic analysis returns normally on every syntax-error-free program (inventory, scope balance, termination shape)."""
from collections import defaultdict
from kernel import *
from sema import *
import inventory
from gram import reviewed_table
import C07


def cone_fns(prog):
    roots = [k for k in prog.bodies if k.startswith(S2S + "analyze_source") or k.startswith(S2S + "parse_source")] + [k for k in prog.bodies if k.startswith("oq3_source_file::api::parse_source")]
    cone = prog.cone(roots)
    sem = {k for k in cone if prog.bodies[k].crate in ("oq3_semantics", "oq3_source_file") and "print" not in k and "report_error" not in k}
    syn = {k for k in cone if prog.bodies[k].crate == "oq3_syntax" and k.startswith(("oq3_syntax::ast::node_ext", "oq3_syntax::ast::expr_ext", "oq3_syntax::ast::token_ext", "oq3_syntax::ast::type_ext"))}
    return roots, cone, sem | syn


def run(prog, R):
    R.explanation = ("Classified inventory of every panic-capable MIR instruction (panic!/todo!/unreachable!/assert, unwrap/expect, indexing, arithmetic checks) in the call-graph cone of "
                     "analyze_source (analyser, include handling and the AST accessors it uses): each site is discharged by a rule, listed in the reviewed table with the grammar fact that "
                     "makes it unreachable on a diagnostic-free parse, or is a known finding with its witness program; scope balance of every body (=> only the global scope open at return); "
                     "termination shape (all loops iterator-driven, recursion only on syntax-tree children or reported); `not implemented` arms return a diagnostic without reaching a panic.")
    R.not_decided = ["memory exhaustion", "behaviour of ariadne when printing", "native stack depth for deeply nested programs"]
    R.assumptions = ["the analyser runs only on parses without diagnostics (C11.3)", "reviewed entries state grammar facts confirmed by reading the grammar functions (tree shapes are not derived mechanically: the K8 shape engine of DESIGN.md was not built)"]
    roots, cone, fns = cone_fns(prog)
    R.floor("functions in the analysis cone", len(fns), 200)
    reviewed = reviewed_table()
    rv = {k: v for k, v in reviewed.items() if k.startswith("C03.1-inventory:")}
    # compiler-inserted pointer checks on references produced by safe code cannot fail
    n = inventory.classify(prog, R, "C03.1-inventory", fns, rv, skip=lambda s: False, auto=lambda s: "PointerDereference" in s["descr"])
    R.floor("panic-capable sites in the analysis cone", n, 150)
    # ---- C03.5 assignment targets: the analyser handles an ASSIGNMENT_STMT whose first child is an IDENTIFIER
    # (AssignmentStmt::identifier) or an INDEXED_IDENTIFIER (indexed_identifier().unwrap()).  The parser must complete
    # ASSIGNMENT_STMT only when the left operand has one of these kinds.
    eb = prog.body("oq3_parser::grammar::expressions::expr_bp")
    if eb:
        from sym import SymExec, show
        SKD = {d: n for n, d in prog.enum_variants("oq3_parser::syntax_kind::syntax_kind_enum::SyntaxKind")}
        import shapes as _shapes
        MH_ = _shapes.marker_helpers(prog)
        tg = [bi for bi, t in eb.calls() if ((eb.callee_of(t) or "").endswith("Marker::complete") and {og[2] for og in origins(prog, eb, t["args"][2], max_depth=3) if og[0] == "agg"} == {"ASSIGNMENT_STMT"})
              or "ASSIGNMENT_STMT" in MH_.get(eb.callee_of(t) or "", ())]
        kinds, unguarded, npth = set(), 0, 0
        # a helper that is handed the marker and completes the node is looked into; the paths of interest are those
        # on which a node of kind ASSIGNMENT_STMT is completed
        def _completes_assignment(p__):
            return any(c_[0].endswith("Marker::complete") and len(c_[1]) > 2 and show(c_[1][2]).endswith("ASSIGNMENT_STMT") for c_ in p__.calls)
        for p_ in SymExec(prog, eb, max_visits=1, max_paths=20000, inline=lambda c: c in MH_).paths():
            if not _completes_assignment(p_):
                continue
            npth += 1
            ks = [c[2] for c in p_.conds if c[0] == "switch" and show(c[1]).startswith("discr(kind(")]
            if not ks:
                unguarded += 1
            for c in ks:
                kinds |= {SKD.get(c[1], c[1])} if c[0] == "eq" else {"not(" + ",".join(str(SKD.get(v, v)) for v in c[1]) + ")"}
        ok = bool(tg) and npth >= 1 and not unguarded and kinds <= {"IDENTIFIER", "INDEXED_IDENTIFIER"}
        R.ob("C03.5-assignment-target-kinds", "ASSIGNMENT_STMT is completed only for an IDENTIFIER / INDEXED_IDENTIFIER left operand", ok, eb.blocks[tg[0]].term["at"] if tg else eb.at,
             f"{npth} paths complete ASSIGNMENT_STMT, left operand kinds {sorted(kinds)}" + ("; some path has no test of the left operand's kind" if unguarded else ""))
    else:
        R.ob("ANCHOR", "expr_bp", False)
    # ---- C03.2 scope balance
    C07.scope_balance(prog, R, "C03.2-scope-balance")
    # ---- C03.3 termination shape: loops iterator-driven
    nl = 0
    for fn in sorted(fns):
        b = prog.body(fn)
        for ci, comp in enumerate(sorted(b.sccs(), key=lambda c: min(c))):
            if all(b.blocks[x].cleanup for x in comp):
                continue
            nl += 1
            calls = {x: b.callee_of(b.blocks[x].term) or "" for x in comp if b.blocks[x].term["k"] == "call"}
            nxt = {x for x, c in calls.items() if c.endswith("::next") and not c.startswith("oq3_")}
            import c01_lexer
            ok = bool(nxt) and c01_lexer.cycles_pass_through(b, comp, nxt)
            R.ob("C03.3-loops-iterator-driven", f"{inventory.ishort(fn)}:loop{ci}", ok, b.blocks[min(comp)].term["at"], f"every cycle passes through {sorted(set(calls[x].split(' as ')[0][-50:] for x in nxt))}" if ok else f"loop not driven by a std iterator: calls {sorted(set(calls.values()))[:5]}")
    R.floor("loops in the analysis cone", nl, 3)
    # recursion: only through functions that take a syntax-tree child (structural) — list SCCs of the call graph inside the cone
    cg = prog.callgraph()
    graph = {f: {g for g in cg.get(f, ()) if g in fns} for f in fns}
    from C01 import sccs_of
    STRUCTURAL = {"expr_to_asg_texpr", "stmt_to_asg_stmt", "block_or_stmt_to_asg_type", "block_expr_to_asg_stmt_list", "block_expr_to_asg_type", "paren_expr_to_asg_texpr", "expression_list_to_asg_texpr",
                  "expression_list_to_asg_type", "index_operator_to_asg_type", "indexed_identifier_to_asg_type", "range_expression_to_asg_type", "set_expression_to_asg_type", "gate_operand_to_asg_texpr",
                  "qubit_list_to_asg_texpr", "call_expr_to_asg_texpr", "gate_call_expr_to_asg_stmt", "expr_stmt_to_asg_stmt", "assignment_stmt_to_asg_stmt", "classical_declaration_statement_to_asg_stmt",
                  "designator_to_asg", "scalar_type_to_type", "param_type_to_type", "bind_typed_parameter_list", "io_declaration_statement_to_asg_stmt", "lookup_identifier"}
    for comp in sccs_of(graph):
        names = sorted(set(x.split("::")[-1] if "{closure" not in x else x.split("::")[-2] for x in comp))
        if all(n_ in STRUCTURAL or n_.startswith("{closure") for n_ in names):
            # structural recursion: every function of the cycle takes an AST node argument (typed child of the caller's node)
            ok = all(any("oq3_syntax::ast" in prog.body(f).local_ty(i) or "BlockOrStmt" in prog.body(f).local_ty(i) or "{closure" in f for i in range(1, prog.body(f).nargs + 1)) for f in comp)
            R.ob("C03.3-recursion", "translator (structural recursion on AST children)", ok, prog.body(comp[0]).at, f"{len(comp)} mutually recursive translator functions, each taking a typed AST child: depth bounded by the tree depth")
        elif any("syntax_to_semantic" in n_ for n_ in names):
            R.ob("C03.3-recursion", "syntax_to_semantic over included files", True, prog.body(comp[0]).at, "recursion descends into SourceFile.included, a finite tree built by the include pre-pass (its own termination: C18.6)")
        elif names == ["promote_base_type"]:
            badp = inventory.premise_failures(prog, "C03", ["C20:C20.1-", "C20:C20.3-total"])
            R.ob("C03.3-recursion", "promote_base_type", not badp, prog.body(comp[0]).at,
                 "self-call with swapped arguments from the mirrored arms only; the direct arms do not recurse: C20.1 evaluates the function to completion on all abstract argument pairs" if not badp else
                 f"the recursion of promote_base_type is no longer shown to terminate: the table evaluation of C20 fails or does not complete for {badp[:4]} (two mirrored arms that both swap and recurse call each other forever)")
        elif any("parse_source_and_includes" in n_ or "parse_one_included" in n_ for n_ in names):
            R.ob("C03.3-recursion", "include pre-pass", False, prog.body(comp[0]).at, "parse_source_and_includes -> parse_included_files -> parse_one_included -> parse_source_and_includes recurses on file contents with no visited set or depth bound (a self-including file never terminates normally)")
        elif any("have_syntax_errors" in n_ or "num_syntax_errors" in n_ or "all_syntax_errors" in n_ or "any_semantic_errors" in n_ or "print" in n_ for n_ in names):
            R.ob("C03.3-recursion", "+".join(names)[:80], True, prog.body(comp[0]).at, "recursion over the finite tree of included files / include error lists")
        else:
            R.ob("C03.3-recursion", "+".join(names)[:100], False, prog.body(comp[0]).at, f"recursion cycle without a recognised ranking argument: {names}")
    # ---- C03.6 statement arms that yield no graph statement.  block_or_stmt_to_asg_type unwraps the translation of a
    # brace-less single-statement body (a listed finding for the three arms below); every *other* statement kind must
    # translate to Some(..), else one more kind of body panics there
    stb = prog.body(S2S + "stmt_to_asg_stmt")
    if stb:
        psn, _ = paths(prog, stb.npath)
        none_arms = set()
        for p in psn:
            if "__diverged__" not in p.env and show(deep_strip(p.env.get(0))) == "Option::None":
                none_arms.add(str(arm_of(prog, p, STMT_ENUM, "stmt")))
        for a_ in sorted(none_arms):
            R.ob("C03.6-none-returning-arm", a_, a_ in ("VersionString", "Include", "AnnotationStatement"), stb.at,
                 f"the {a_} arm of stmt_to_asg_stmt returns None" + ("" if a_ in ("VersionString", "Include", "AnnotationStatement") else ": as the brace-less body of if / while / for this statement makes block_or_stmt_to_asg_type unwrap None (panic)"))
        R.ob("C03.6-none-returning-arm", "evaluated", len(none_arms) >= 1, stb.at, f"arms returning None: {sorted(none_arms)}")
    # ---- C03.4 not-implemented arms reach no panic
    st = prog.body(S2S + "stmt_to_asg_stmt")
    if st:
        ps, _ = paths(prog, st.npath)
        bad, n = [], 0
        for p in ps:
            if "NotImplementedError" in errors_on(p):
                n += 1
                if "__diverged__" in p.env:
                    bad.append(arm_of(prog, p, STMT_ENUM, "stmt"))
        R.ob("C03.4-not-implemented-is-diagnostic", "stmt_to_asg_stmt", not bad and n >= 8, st.at, f"{n} not-implemented arms return after inserting NotImplementedError; diverging: {bad}")
