"""C06 — the semantic graph preserves structure, order and operators (structural clauses)."""
import json, os
from collections import defaultdict
from kernel import *
from sym import SymExec, show, deep_strip, strip_transparent
from sema import *
from gram import VERIF
import inventory

A = "oq3_semantics::asg::"
ORDER_CHANGERS = ("::rev", "::sort", "::sort_by", "::sort_by_key", "::sort_unstable", "::reverse", "::swap", "::retain", "::dedup", "::swap_remove", "::rotate_left", "::rotate_right", "Vec::insert", "::pop", "::truncate", "::drain", "::split_off")


def all_paths(prog, fns):
    for fn in fns:
        if prog.body(fn):
            ps, _ = paths(prog, fn)
            for p in ps:
                yield fn, p


def ctor_calls(term, acc):
    """all ('call', asg ctor, args) subterms"""
    if isinstance(term, tuple):
        if term and term[0] == "call" and term[1].startswith(A) and term[1].endswith("::new"):
            acc.append(term)
        for x in term:
            if isinstance(x, tuple):
                ctor_calls(x, acc)
    return acc


def run(prog, R):
    R.explanation = ("Operator / modifier / statement-kind translation tables compared with the 'same meaning' correspondence; role provenance of every ASG constructor argument "
                     "(the i-th argument originates from the AST accessor of that role and of no sibling role); order preservation (no order-changing adaptor or mutation in the "
                     "translator; lists are built by map/filter_map/collect over the child iterators); annotation attachment and pragma text slicing.")
    R.not_decided = ["includes expanded in place end-to-end (see C18)", "equality of nested block contents for all programs", "accessor -> grammar slot (C05.3 ROLE over tree shapes, not built)"]
    R.assumptions = ["spec/asg_roles.json", "rustc MIR; path enumerator"]
    # ---- C06.1 operator translation
    bo = R.anchor(prog, S2S + "binary_op_to_asg_type")
    if bo:
        ps, _ = paths(prog, bo.npath)
        BO = "oq3_syntax::ast::operators::"
        top = {d: n for n, d in prog.enum_variants(BO + "BinaryOp")}
        ar = {d: n for n, d in prog.enum_variants(BO + "ArithOp")}
        rows = {}
        for p in ps:
            sel = [c for t, c in conds_of(p) if show(t) == "discr(synast_op)"]
            sub = [c for t, c in conds_of(p) if show(t) == "discr(synast_op.0)"]
            neg = [truth(c) for t, c in conds_of(p) if "synast_op.0" in show(t) and not show(t).startswith("discr")]
            k = top.get(sel[0][1]) if sel else None
            if k == "ArithOp" and sub:
                k = "ArithOp::" + ar.get(sub[0][1], "?")
            elif k == "CmpOp" and sub:
                k = "CmpOp::" + ("Eq" if sub[0][1] == 0 else "Ord") + (f"(negated={str(neg[0]).lower()})" if neg and sub[0][1] == 0 else "")
            rows.setdefault(k, set()).add("PANIC" if "__diverged__" in p.env else show(deep_strip(p.env.get(0))))
        want = {"ArithOp::" + n: "BinaryOp::ArithOp(ArithOp::" + ("BitXOr" if n == "BitXor" else n) + ")" for n in ar.values()}
        want.update({"ConcatenationOp": "BinaryOp::ConcatenationOp", "PowerOp": "BinaryOp::PowerOp"})
        for k, w in sorted(want.items()):
            R.ob("C06.1-binary-op-map", k, rows.get(k) == {w}, bo.at, f"{k} => {sorted(rows.get(k, []))} (same-meaning operator: {w})")
        eqrows = {k: v for k, v in rows.items() if k and k.startswith("CmpOp::Eq")}
        ok = any("negated=false" in k and v == {"BinaryOp::CmpOp(CmpOp::Eq)"} for k, v in eqrows.items()) and any("negated=true" in k and v == {"BinaryOp::CmpOp(CmpOp::Neq)"} for k, v in eqrows.items())
        if not ok:
            # negated flag may be decided by a bool switch without the name: accept the two results under the Eq arm
            allv = set().union(*eqrows.values()) if eqrows else set()
            ok = allv == {"BinaryOp::CmpOp(CmpOp::Eq)", "BinaryOp::CmpOp(CmpOp::Neq)"}
        R.ob("C06.1-binary-op-map", "CmpOp::Eq", ok, bo.at, f"{ {k: sorted(v) for k, v in eqrows.items()} }")
    es = prog.body(S2S + "expr_stmt_to_asg_stmt::{closure#0}")
    if es:
        ps, _ = paths(prog, es.npath)
        mv = {d: n for n, d in prog.enum_variants("oq3_syntax::ast::generated::nodes::Modifier")}
        rows = {}
        for p in ps:
            if "__diverged__" in p.env:
                continue
            sel = [c for t, c in conds_of(p) if isinstance(t, tuple) and t[0] == "discr" and isinstance(t[1], tuple) and t[1][0] == "arg"]
            r = deep_strip(p.env.get(0))
            if sel and r[0] == "adt":
                rows.setdefault(mv.get(sel[0][1]), set()).add(r[1].rsplit("::", 1)[1])
        want = {"InvModifier": {"Inv"}, "PowModifier": {"Pow"}, "CtrlModifier": {"Ctrl"}, "NegCtrlModifier": {"NegCtrl"}}
        for k, w in want.items():
            R.ob("C06.1-modifier-map", k, rows.get(k) == w, es.at, f"{k} => {sorted(rows.get(k, []))}")
    else:
        R.ob("ANCHOR", "modifier closure", False)
    # statement arm -> graph construct
    s2s = R.anchor(prog, S2S + "stmt_to_asg_stmt")
    want_stmt = {"IfStmt": "If::new", "WhileStmt": "While::new", "ForStmt": "ForStmt::new", "SwitchCaseStmt": "SwitchCaseStmt::new", "ClassicalDeclarationStatement": "classical_declaration_statement_to_asg_stmt",
                 "IODeclarationStatement": "io_declaration_statement_to_asg_stmt", "QuantumDeclarationStatement": "Declare", "AssignmentStmt": "assignment_stmt_to_asg_stmt", "BreakStmt": "Stmt::Break",
                 "ContinueStmt": "Stmt::Continue", "EndStmt": "Stmt::End", "Gate": "GateDefinition::new", "Def": "DefStmt::new", "Barrier": "Barrier::new", "DelayStmt": "DelayStmt::new", "Reset": "Reset::new",
                 "ExprStmt": "expr_stmt_to_asg_stmt", "PragmaStatement": "Pragma::new", "AliasDeclarationStatement": "Alias::new"}
    if s2s:
        ps, _ = paths(prog, s2s.npath)
        got = defaultdict(set)
        silent_none = defaultdict(int)
        for p in ps:
            if "__diverged__" in p.env:
                continue
            arm = arm_of(prog, p, STMT_ENUM, "stmt")
            r = deep_strip(p.env.get(0))
            names = [c[1] for c in ctor_calls(r, [])]
            s_ = show_full(r)
            got[arm].add(s_)
            if s_ == "Option::None" and not errors_on(p):
                silent_none[arm] += 1
        for arm, w in sorted(want_stmt.items()):
            some = [s_ for s_ in got.get(arm, ()) if s_ != "Option::None"]
            ok = bool(some) and all(w in s_ for s_ in some)
            R.ob("C06.1-statement-kind-map", arm, ok, s2s.at, f"{arm} => graph construct containing {w} ({len(some)} distinct results)")
        # a source statement never disappears from the graph without a diagnostic
        SILENT_OK = json.load(open(os.path.join(VERIF, "spec", "asg_roles.json"))).get("silently_dropped_arms", {})
        for arm, n_ in sorted(silent_none.items(), key=lambda kv: str(kv[0])):
            R.ob("C06.1-no-silent-drop", str(arm), str(arm) in SILENT_OK, s2s.at,
                 f"{n_} path(s) of the {arm} arm return None without inserting a diagnostic" + (f" (reviewed: {SILENT_OK[str(arm)]})" if str(arm) in SILENT_OK else ": the statement vanishes from the graph silently"))
        R.floor("statement arms with a return", len(got), 25)
    COLLAPSING = ("then_some(", "bool::then(", "is_empty(", "unwrap_or_default(", "map_or_else(", "map_or(", "Option::filter(", "::filter(", "take_while(", "skip(", "::take(")
    # ---- C06.2 role provenance
    roles = json.load(open(os.path.join(VERIF, "spec", "asg_roles.json")))["rows"]
    fns = [k for k in prog.bodies if k.startswith(S2S)]
    found = defaultdict(list)
    for fn, p in all_paths(prog, fns):
        if "__diverged__" in p.env:
            continue
        for c in p.calls:
            if c[0].startswith(A) and c[0].endswith("::new"):
                found[(c[0], fn)].append(c[1])
    for row in roles:
        ctor = row["ctor"]
        at_fn = None
        if "@" in ctor:
            ctor, at_fn = ctor.split("@")
        full = "oq3_semantics::" + ctor
        sites = [(k, v) for k, v in found.items() if k[0] == full and (at_fn is None or k[1].endswith(at_fn))]
        if not sites:
            R.ob("C06.2-role-provenance", row["ctor"], False, "", f"constructor {full} is not called on any enumerated path of the translator (anchor missing)")
            continue
        bad = []
        nobs = 0
        for (k, fn), calls in sites:
            for args in calls:
                nobs += 1
                for i, pats in enumerate(row["args"]):
                    if i >= len(args):
                        bad.append(f"arg {i} missing")
                        continue
                    at_ = deep_strip(args[i])
                    # a bound symbol denotes its name argument (the type argument legitimately mentions the parameter lists)
                    if isinstance(at_, tuple) and at_[0] == "call" and at_[1].endswith("Context::new_binding"):
                        at_ = at_[2][1]
                    s_ = show_full(at_)
                    if pats == ["arg:modifiers"]:
                        ok = s_ == "modifiers"
                    elif "Type::Void" in pats:
                        ok = any(pt in s_ for pt in pats)
                    else:
                        ok = all(pt in s_ for pt in pats) or s_ in ("Option::None",)
                    # no sibling role's accessor
                    sib = [pt for j, ps_ in enumerate(row["args"]) if j != i for pt in ps_ if pt.endswith("(") and pt not in pats and pt in s_ and not (pt == "expr(" and True) and not (pt == "name(" and "string(" in s_)]
                    if not ok or sib:
                        bad.append(f"{fn.split('::')[-1]} arg{i}: {s_[:90]}" + (f" (contains sibling accessor {sib})" if sib else ""))
                    # presence and length of a constituent are those of the accessor's result: nothing between the
                    # accessor and the constructor may turn an empty list into "absent" or drop / default an option
                    coll = [w for w in COLLAPSING if w in s_]
                    if coll:
                        bad.append(f"{fn.split('::')[-1]} arg{i}: goes through {coll}: an empty constituent (`default {{ }}`) and an absent one become the same graph")
        R.ob("C06.2-role-provenance", row["ctor"], not bad, prog.body(sites[0][0][1]).at, f"{nobs} constructions checked against roles {row['args']}; {sorted(set(bad))[:3]}")
    # BinaryExpr operand order
    ex = prog.body(S2S + "expr_to_asg_texpr")
    if ex:
        ps, _ = paths(prog, ex.npath)
        ok, n = True, 0
        for p in ps:
            for c in p.calls:
                if c[0].endswith("BinaryExpr::new_texpr_with_cast"):
                    n += 1
                    l, r = show_full(deep_strip(c[1][1])), show_full(deep_strip(c[1][2]))
                    ok = ok and "lhs(" in l and "rhs(" not in l and "rhs(" in r and "lhs(" not in r and "op_kind(" in show_full(deep_strip(c[1][0]))
        R.ob("C06.2-role-provenance", "BinaryExpr(op_kind, lhs, rhs)", ok and n >= 1, ex.at, f"{n} constructions")
        n, ok = 0, True
        for p in ps:
            for c in p.calls:
                if c[0].endswith("UnaryExpr::new"):
                    n += 1
                    ok = ok and show(c[1][0]).endswith("UnaryOp::Minus")
        R.ob("C06.1-unary-op-map", "Neg => Minus", ok and n >= 1, ex.at, f"{n} constructions")
    import C08
    n_, bad_ = C08.binary_operand_slots(prog)
    R.ob("C06.2-binary-operand-order", "BinaryExpr::new_texpr_with_cast keeps (op, left, right) in their slots on every path (operands possibly wrapped in casts)", not bad_ and n_ >= 5, "crates/oq3_semantics/src/asg.rs", f"{n_} constructing paths; {bad_[:3]}")
    import roles
    roles.check(prog, R, "C06.2-accessor-roles")
    # ---- C06.3 order preservation
    hits, ctrl = [], 0
    for b in prog.by_crate["oq3_semantics"]:
        for bi, t in b.calls():
            c = b.callee_of(t) or ""
            if c.endswith(ORDER_CHANGERS) or any(x in c for x in ("Iterator::rev", "slice::sort", "BinaryHeap", "BTree", "HashMap<K, V, S> as std::iter::IntoIterator", "hash_map::Iter", "HashMap::iter", "HashMap::values", "HashMap::keys")):
                if b.npath.startswith(S2S) or b.npath.startswith("oq3_semantics::context::") or b.npath.startswith(A):
                    hits.append((inventory.ishort(b.npath), c.split("::")[-1], t["at"]))
                else:
                    ctrl += 1
    for h in hits:
        ok = h[0].endswith("SymbolTable::exit_scope")
        R.ob("C06.3-order-preserved", f"{h[0]}:{h[1]}", False, h[2], f"order-changing operation {h[1]} in the translator / graph code: source order of statements, operands or arguments may not be preserved")
    R.ob("C06.3-order-preserved", "translator", not hits, "", f"no rev/sort/reverse/swap/retain/dedup/insert/pop/hash-iteration in syntax_to_semantics, context, asg (positive control: {ctrl} such calls elsewhere in the crate, e.g. SymbolTable::lookup's rev / exit_scope's pop)")
    R.floor("positive control: order-changing calls outside the translator", ctrl, 2)
    # list builders: filter_map/map + collect over the child iterators
    for fn, it in ((S2S + "block_expr_to_asg_stmt_list", "statements("), (S2S + "expression_list_to_asg_texpr", "exprs("), (S2S + "qubit_list_to_asg_texpr", "gate_operands(")):
        b = R.anchor(prog, fn)
        if b:
            ps, _ = paths(prog, fn)
            rs_ = [show_full(deep_strip(p.env.get(0))) for p in ps if "__diverged__" not in p.env]
            ok = bool(rs_) and all("collect(" in r_ and it in r_ for r_ in rs_)
            R.ob("C06.3-list-builders", fn.split("::")[-1], ok, b.at, f"= collect(map/filter_map over {it}..)")
    ip = prog.body(A + "Program::insert_stmt")
    if ip:
        ok = any((ip.callee_of(t) or "").endswith("Vec::push") for _, t in ip.calls())
        R.ob("C06.3-list-builders", "Program::insert_stmt pushes", ok, ip.at, "")
    # ---- C06.4 annotations / pragma
    ss = [k for k in prog.bodies if k.startswith(S2S + "syntax_to_semantic") and "{closure" not in k]
    if ss:
        b = prog.body(ss[0])
        # module-private functions called only (transitively) from the statement loop stand for it: a tail of the
        # loop extracted into a helper is evaluated as part of the loop
        cg_ = prog.callgraph()
        callers_ = defaultdict(set)
        for a_, bs_ in cg_.items():
            for b__ in bs_:
                callers_[b__].add(a_)
        LOOP_HELPERS = set()
        changed_ = True
        while changed_:
            changed_ = False
            for k_ in prog.bodies:
                if k_ in LOOP_HELPERS or k_ == ss[0] or not k_.startswith(S2S) or "{closure" in k_ or not str(prog.body(k_).vis).startswith("in "):
                    continue
                cs_ = callers_.get(k_, set())
                if cs_ and all(c_ == ss[0] or c_ in LOOP_HELPERS for c_ in cs_):
                    LOOP_HELPERS.add(k_)
                    changed_ = True
        ps = SymExec(prog, b, max_visits=1, max_paths=5000, inline=lambda c: c in LOOP_HELPERS).paths()
        rows = set()
        for p in ps:
            ins = [c for c in p.calls if c[0].endswith("Program::insert_stmt")]
            if not ins:
                continue
            emp = find_cond(p, lambda t_: isinstance(t_, tuple) and t_[0] == "call" and t_[1].endswith("Context::annotations_is_empty"))
            arg = show_full(deep_strip(ins[0][1][1]))
            bare = "AnnotatedStmt" not in arg
            wrapped = "AnnotatedStmt::new(" in arg and "take_annotations(" in arg
            rows.add((tuple(emp), "bare" if bare else ("annotated" if wrapped else "other:" + arg[:60])))
        ok = rows == {((True,), "bare"), ((False,), "annotated")}
        R.ob("C06.4-annotations", "insert_stmt(bare) iff annotations_is_empty, else insert_stmt(AnnotatedStmt::new(stmt, take_annotations()))", ok, b.at, f"{sorted(rows)}")
    # a declaration written with an initializer has one in the graph -- also on the diagnosed paths (an ill-typed
    # initializer is reported *and* kept: the statement is the translation of the source statement).  Every call of
    # declare_classical_helper on a path where the initializer was translated (expr_to_asg_texpr(..) is Some) passes
    # Some(<that expression, possibly wrapped in a cast>).
    cd_ = prog.body(S2S + "classical_declaration_statement_to_asg_stmt")
    if cd_ is None:
        R.ob("ANCHOR", S2S + "classical_declaration_statement_to_asg_stmt", False)
    else:
        se_ = SymExec(prog, cd_, max_visits=1, max_paths=3000)
        nh_, badi_ = 0, []
        for q_ in se_.paths():
            if "__diverged__" in q_.env:
                continue
            tr_ = [show(deep_strip(c[1]))[6:-1] for c in q_.conds if c[0] == "switch" and show(deep_strip(c[1])).startswith("discr(expr_to_asg_texpr(") and c[2] == ("eq", 1)]
            for h_ in q_.calls:
                if h_[0].endswith("declare_classical_helper") and len(h_[1]) > 1:
                    nh_ += 1
                    a_ = show(deep_strip(h_[1][1]))
                    if tr_ and not (a_.startswith("Option::Some(") and any(t_ + ".0" in a_ for t_ in tr_)):
                        badi_.append(a_[:80])
        R.ob("C06.3-initializer-kept", "declare_classical_helper receives Some(initializer) whenever the source has one", nh_ >= 10 and not badi_ and not se_.truncated, cd_.at,
             f"{nh_} helper calls over all paths; with a translated initializer each passes Some(it) or Some(cast of it)" if not badi_ else
             f"on a path where the initializer was translated the declaration is built with {sorted(set(badi_))[:2]}: the graph statement loses the initializer the source statement has")
    R.premises(prog, "C06.1-literal-class-premise", ["C10:C10.4-", "C08:C08.1-"], "every literal class maps to the graph literal of the same class (imaginary / timing / bit-string / boolean constructors, signs): C10.4 and C08.1 tables")
    R.premises(prog, "C06.2-parse-shape-premise", ["C05:C05.1-", "C05:C05.4-"], "the graph is built from the typed tree: operand grouping (precedence and associativity tables, C05.1) and the node each token and operand belongs to (C05.4) are what the translation mirrors")
    R.premises(prog, "C06.5-include-premise", ["C18:C18.2-", "C18:C18.5-"], "included files are expanded in place: the n-th include statement is paired with the n-th parsed file (lock-step of the pre-pass and the analyser, C18.2)")
    # who consumes pending annotations: only the top-level statement loop.  A consumer inside a nested statement list
    # would hand an annotation that is pending when the enclosing statement starts (i.e. written in front of it) to
    # a statement inside it.
    cons = sorted(k for k, b_ in prog.bodies.items() for _, t in b_.calls() if (b_.callee_of(t) or "").endswith(("Context::take_annotations", "asg::AnnotatedStmt::new")))
    LH_ = LOOP_HELPERS if ss else set()
    okc = bool(cons) and all(k == S2S + "syntax_to_semantic" or k in LH_ for k in cons)
    R.ob("C06.4-annotations", "pending annotations are consumed only by the top-level statement loop", okc, prog.body(cons[0]).at if cons else "",
         f"consumers: {sorted(set(inventory.ishort(k) for k in cons))}" + ("" if okc else ": a nested consumer attaches an annotation written before the enclosing statement to a statement inside it"))
    # the pending-annotation list is touched only in three ways: pushed by the AnnotationStatement arm, tested and taken by
    # the top-level loop.  Any other access (clearing at the end of a file, peeking elsewhere) changes which statement an
    # annotation lands on, in particular across include boundaries.
    acc = sorted({(inventory.ishort(S2S + "syntax_to_semantic" if k in LH_ else k), (b_.callee_of(t) or "").split("::")[-1]) for k, b_ in prog.bodies.items() if not k.startswith("oq3_semantics::context::Context::")
                  for _, t in b_.calls() if (b_.callee_of(t) or "").startswith("oq3_semantics::context::Context::") and "annotation" in (b_.callee_of(t) or "").split("::")[-1]})
    want_acc = [("semantics::syntax_to_semantics::stmt_to_asg_stmt", "push_annotation"), ("semantics::syntax_to_semantics::syntax_to_semantic", "annotations_is_empty"), ("semantics::syntax_to_semantics::syntax_to_semantic", "take_annotations")]
    R.ob("C06.4-annotations", "accesses to the pending-annotation list", acc == want_acc, "", f"{acc}" if acc == want_acc else f"accesses {acc}; expected exactly {want_acc}")
    # ... and the field itself is reached only through those methods (a direct `context.annotations = ..` /
    # mem::replace in the translator would set pending annotations aside or drop them without any of the calls above)
    from kernel import field_sites as _fs
    CT_ = "oq3_semantics::context::Context"
    outside = sorted({(inventory.ishort(s_["body"].npath), s_["mode"]) for s_ in _fs(prog, CT_, "annotations")
                      if not (s_["body"].npath.startswith(CT_ + "::") or s_["body"].npath.startswith("<" + CT_ + " as "))})
    meths = sorted({s_["body"].npath.split("::")[-1] for s_ in _fs(prog, CT_, "annotations") if s_["body"].npath.startswith(CT_ + "::") and s_["mode"] in ("refmut", "write", "move")})
    R.ob("C06.4-annotations", "Context.annotations is touched only inside Context's methods", not outside and len(meths) >= 2, "",
         f"mutating methods: {meths}" if not outside else f"direct accesses to the pending-annotation list outside Context: {outside}: annotations can be set aside, replaced or dropped without passing the statement loop's test-and-take")
    ta = prog.body("oq3_semantics::context::Context::take_annotations")
    if ta:
        names = [(ta.callee_of(t) or "").split("::")[-1] for _, t in ta.calls()]
        R.ob("C06.4-annotations", "take_annotations clones then clears", "clear" in names and "clone" in names and names.index("clone") < names.index("clear"), ta.at, f"{names}")
    pt = prog.body("oq3_syntax::ast::node_ext::PragmaStatement::pragma_text")
    if pt:
        consts = sorted(set(const_of(op) for bi, si, s_ in pt.stmts_with_pos() if s_["k"] == "assign" for op in operands_of_rv(s_["rv"]) if op.get("k") == "const" and op.get("ty") == "usize") | set(const_of(f) for bi, si, s_ in pt.stmts_with_pos() if s_["k"] == "assign" and s_["rv"]["k"] == "agg" for f in s_["rv"]["fields"] if f.get("k") == "const" and f.get("ty") == "usize"))
        chars = sorted(set(const_of(a) for _, t in pt.calls() for a in t["args"] if a.get("k") == "const" and a.get("ty") == "char"))
        R.ob("C06.4-pragma-text", "slices off len('#pragma')=7 when the text starts with '#', else len('pragma')=6", consts == [6, 7] and chars == [ord("#")], pt.at, f"slice starts {consts}, tested char {[chr(c) for c in chars]}")
    else:
        R.ob("ANCHOR", "PragmaStatement::pragma_text", False)


def show_full(t):
    """like show() but keeps the type name of constructor/accessor calls (If::new rather than new)"""
    if not isinstance(t, tuple):
        return str(t)
    k = t[0]
    if k in ("call", "pure"):
        n = t[1]
        nm = "::".join(n.split("::")[-2:]) if n.endswith("::new") or n.endswith("::to_stmt") or n.endswith("::to_texpr") else n.split("::")[-1]
        return f"{nm}({', '.join(show_full(a) for a in t[2])})"
    if k == "adt":
        name = "::".join(t[1].split("::")[-2:])
        return name if not t[2] else f"{name}({', '.join(show_full(f) for f in t[2])})"
    if k == "tuple":
        return "(" + ", ".join(show_full(f) for f in t[1]) + ")"
    if k == "field":
        return f"{show_full(t[1])}.{t[2]}"
    if k == "closure":
        return f"closure {t[1].split('::', 1)[-1]}"
    return show(t)
