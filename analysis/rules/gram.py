"""Shared rule helpers over the grammar abstract interpreter result (K7)."""
import json, os
from collections import defaultdict
from kernel import norm
import grammar_run

VERIF = os.path.dirname(os.path.dirname(os.path.dirname(os.path.abspath(__file__))))


def reviewed_table():
    p = os.path.join(VERIF, "spec", "reviewed_sites.json")
    if not os.path.exists(p):
        return {}
    return {e["key"]: e for e in json.load(open(p))}


def short(fn):
    fn = norm(fn)
    return fn.split("::", 1)[1] if fn.startswith("oq3_") else fn


def panic_sites(prog, fns):
    """Static list of panic-capable sites of the given bodies (non-cleanup):
    (fn, bb, kind, descr, at).  kind: 'panic-call' | 'assert'."""
    out = []
    for fn in fns:
        b = prog.body(fn)
        if not b:
            continue
        for bl in b.blocks:
            if bl.cleanup:
                continue
            t = bl.term
            if t["k"] == "call" and t["target"] is None:
                msg = ""
                for a in t["args"]:
                    if a.get("k") == "const" and "str" in a:
                        msg = a["str"]
                macro = [e for e in t.get("exp", []) if e in ("assert", "debug_assert", "unreachable", "panic", "todo", "unimplemented", "assert_eq", "assert_ne")]
                cal = b.callee_of(t) or "?"
                out.append((fn, bl.idx, "panic-call", f"{(macro or [cal.split('::')[-1]])[0]}:{msg}", t["at"]))
            elif t["k"] == "assert":
                out.append((fn, bl.idx, "assert", "assert:" + t["kind"], t["at"]))
    return out


def alarm_groups(G, rule):
    """alarms of a rule grouped by (fn, extra): {key: [alarm dict]}"""
    g = defaultdict(list)
    for a in G.alarms:
        if a["rule"] == rule:
            g[(a["fn"], a["extra"])].append(a)
    return g


def where(a):
    """Human readable location: site, plus the grammar call site through which an inlined callee was reached."""
    s = a["site"]
    if a.get("via"):
        s += f" (reached from {short(a['ctx'])} via call to {a['via'][1].split('::')[-1]} at {a['via'][0]})"
    elif a["ctx"] != a["fn"]:
        s += f" (in context {short(a['ctx'])})"
    return s


def ordinals(items):
    """Assign an ordinal to equal keys, in order."""
    seen = defaultdict(int)
    out = []
    for k in items:
        out.append(seen[k])
        seen[k] += 1
    return out


def ai_unavailable(R, e):
    """The grammar abstract interpreter did not reach a fixpoint on this tree: fail closed."""
    R.ob("AI-BUDGET", "grammar abstract interpreter reaches a fixpoint within its budget", False, "crates/oq3_parser/src/grammar",
         f"the token-kind abstract interpreter did not converge ({e}); on the unchanged tree it converges in about two minutes. The number of contexts grows without bound when some path "
         "of a grammar function leaks a marker (neither completed nor abandoned) or a summary keeps changing; every obligation that depends on the interpreter is undecided on this tree")
