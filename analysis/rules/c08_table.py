"""C08 decision table: (declared type x initializer type x value form) -> outcome of the declaration check.

The translator function classical_declaration_statement_to_asg_stmt is evaluated by the free-term path enumerator
with the type functions of types.rs inlined (as in C20) and the syntax-dependent calls replaced by abstract values:

  scalar_type_to_type(..)        -> the abstract declared type T1
  expr_to_asg_texpr(..)          -> Some(TExpr { expression: <form>, ty: T2 })
  array_type() / const_token()   -> None / opaque

T1, T2 range over Type constructor x {no width, Some(v)} x {const, non-const} (widths symbolic: v1, v2), the value
form over {non-literal, integer literal (sign +/-), float literal, other literal}.  For every row the set of possible
outcomes (diagnostics inserted, initializer handed to declare_classical_helper: as is / Cast::new(_, T1)) is derived;
nothing is executed.  The rules on the rows are the clauses of C08 about declarations."""
from kernel import *
from sym import SymExec, show, deep_strip, strip_transparent
from sema import S2S, errors_on
import C20

A = "oq3_semantics::asg::"
T = C20.T
SCALARS = ["Bool", "Int", "UInt", "Float", "Angle", "Complex", "Duration", "Stretch", "Bit"]
TOWER = {"Int": 0, "UInt": 0, "Float": 1, "Complex": 2}


def forms():
    il = lambda sign: ("adt", A + "Expr::Literal", (("adt", A + "Literal::Int", (("adt", A + "IntLiteral::IntLiteral", (("sym", "ival"), ("c", "bool", sign))),)),))
    return [("nonliteral", ("adt", A + "Expr::Identifier", (("sym", "ident"),))),
            ("int+", il(1)), ("int-", il(0)),
            ("float", ("adt", A + "Expr::Literal", (("adt", A + "Literal::Float", (("sym", "fl"),)),)))]


def inline_pred(cal):
    return C20.inline_types(cal) or cal in (A + "TExpr::get_type", A + "TExpr::expression", S2S + "can_cast_literal", A + "IntLiteral::sign") or cal.startswith("<" + T)


def model_factory(t1, texpr):
    def model(se, st, t, cal, args, site):
        if cal.endswith("ClassicalDeclarationStatement::array_type"):
            return ("adt", "std::option::Option::None", ())
        if cal == S2S + "scalar_type_to_type":
            return t1
        if cal == S2S + "expr_to_asg_texpr":
            return ("adt", "std::option::Option::Some", (texpr,))
        a0 = deep_strip(args[0]) if args else None
        if cal.endswith("Option::<T>::is_some") or cal.endswith("Option::is_some"):
            if isinstance(a0, tuple) and a0[0] == "adt" and a0[1].endswith("Option::None"):
                return ("c", "bool", 0)
            if isinstance(a0, tuple) and a0[0] == "adt" and a0[1].endswith("Option::Some"):
                return ("c", "bool", 1)
        if cal.endswith("as std::clone::Clone>::clone") and args:
            return args[0]
        return None
    return model


def outcome_of(p, t1):
    """(errors tuple, how the initializer is passed on)"""
    errs = tuple(sorted(errors_on(p)))
    how = "?"
    for nm, args, bb in p.calls:
        if nm == S2S + "declare_classical_helper":
            init = deep_strip(args[1])
            if isinstance(init, tuple) and init[0] == "adt" and init[1].endswith("Option::Some"):
                v = deep_strip(init[2][0])
                if isinstance(v, tuple) and v[0] == "call" and v[1].endswith("Cast::to_texpr"):
                    cn = deep_strip(v[2][0])
                    ty = deep_strip(cn[2][1]) if cn[0] == "call" and cn[1].endswith("Cast::new") else None
                    how = "cast-to-declared" if ty == t1 else "cast-to-other:" + show(ty)[:40]
                elif isinstance(v, tuple) and v[0] == "adt" and v[1].endswith("TExpr::TExpr"):
                    how = "as-is"
                else:
                    how = "other:" + show(v)[:40]
            else:
                how = "none"
    return errs, how


_tab = {}


def table(prog):
    if prog.dir in _tab:
        return _tab[prog.dir]
    fn = S2S + "classical_declaration_statement_to_asg_stmt"
    b = prog.body(fn)
    rows = {}
    if b is None:
        return None
    A1 = [x for c in SCALARS for x in C20.abstract_types(prog, c, "1")]
    A2 = [x for c in SCALARS for x in C20.abstract_types(prog, c, "2")]
    for l1, t1 in A1:
        for l2, t2 in A2:
            for fname, fterm in forms():
                # literal forms only with the literal's own type class
                # a literal has the type of its literal class: sized and const (C08.1)
                if fname.startswith("int") and l2 != "Int[w2,c]":
                    continue
                if fname == "float" and l2 != "Float[w2,c]":
                    continue
                texpr = ("adt", A + "TExpr::TExpr", (fterm, t2))
                se = SymExec(prog, b, inline=inline_pred, call_model=model_factory(t1, texpr), max_paths=400)
                outs = set()
                for p in se.paths():
                    if "__diverged__" in p.env or "__cut__" in p.env:
                        outs.add((("<panic>",), "?", ()))
                        continue
                    wc = tuple(sorted((show(c[1])[:60], str(c[2])) for c in p.conds if c[0] == "switch" and ("v1" in show(c[1]) or "v2" in show(c[1]))))
                    e, how = outcome_of(p, t1)
                    outs.add((e, how, wc))
                rows[(l1, l2, fname)] = (t1, t2, sorted(outs))
    _tab[prog.dir] = rows
    return rows


def base(label):
    return label.split("[")[0]


def flags(label):
    inner = label[label.index("[") + 1:-1].split(",") if "[" in label else []
    return ("w1" in inner or "w2" in inner), ("c" in inner)


def holds(term, ordering):
    """truth of a width comparison under v1 == v2 ('eq'), v1 > v2 ('gt'), v1 < v2 ('lt'); None if not understood"""
    t = term.replace(" ", "")
    if t in ("eq(v1,v2)", "eq(v2,v1)"):
        return ordering == "eq"
    if t in ("eq(max(v1,v2),v1)", "eq(max(v2,v1),v1)", "eq(v1,max(v1,v2))"):
        return ordering in ("eq", "gt")
    if t in ("eq(max(v1,v2),v2)", "eq(max(v2,v1),v2)", "eq(v2,max(v1,v2))"):
        return ordering in ("eq", "lt")
    return None


def feasible(wc, ordering):
    for term, val in wc:
        h = holds(term, ordering)
        if h is None:
            continue
        truth = (val == "('ne', (0,))") or (val.startswith("('eq',") and not val.endswith(" 0)"))
        if h != truth:
            return False
    return True


def check(prog, R):
    rows = table(prog)
    if rows is None:
        R.ob("ANCHOR", "classical_declaration_statement_to_asg_stmt", False)
        return
    fn = prog.body(S2S + "classical_declaration_statement_to_asg_stmt")
    n = 0
    unknown_terms = set()
    for (l1, l2, form), (t1, t2, outs) in sorted(rows.items()):
        k1, k2 = base(l1), base(l2)
        w1, c1 = flags(l1)
        w2, c2 = flags(l2)
        orderings = ("eq", "gt", "lt") if (w1 and w2) else ("-",)
        for od in orderings:
            n += 1
            key = f"{l1}<-{l2}:{form}" + (f":declared-width-{od}-value-width" if od != "-" else "")
            sel = [(e, h) for e, h, wc in outs if od == "-" or feasible(wc, od)]
            for e, h, wc in outs:
                for term, _ in wc:
                    if holds(term, "eq") is None:
                        unknown_terms.add(term)
            if not sel:
                R.ob("C08.5-declaration-table", key, False, fn.at, f"no feasible outcome derived for this row (outcomes {outs[:2]})")
                continue
            for errs, how in sorted(set(sel)):
                okey = f"{key}|{how}|{','.join(errs) or '-'}"
                if errs == ("<panic>",):
                    R.ob("C08.5-declaration-table", okey, False, fn.at, "the declaration check can panic on this (declared type, value type) pair")
                    continue
                diag = bool(errs)
                same_type_utc = k1 == k2 and ((not w1 and not w2) or (w1 and w2 and od == "eq"))
                # clause 1: value of the declared type up to const-ness as is, or cast to exactly the declared type, or a diagnostic
                justified = diag or how == "cast-to-declared" or (how == "as-is" and same_type_utc)
                R.ob("C08.5-declaration-justified", okey, justified, fn.at, f"declared {l1}, value {l2} ({form}{', widths ' + od if od != '-' else ''}): diagnostics {list(errs)}, initializer {how}")
                # clause 2: kind-changing downward conversions of a non-literal value, and a negative literal into unsigned, are diagnosed
                down = (k1 in TOWER and k2 in TOWER and TOWER[k2] > TOWER[k1]) or (k1 != k2 and any(x in (k1, k2) for x in ("Bit", "Bool", "Duration", "Stretch", "Angle")))
                if (form == "nonliteral" and down) or (form == "int-" and k1 == "UInt"):
                    R.ob("C08.5-downward-diagnosed", okey, diag, fn.at, f"declared {l1} from a {l2} value ({form}): conversion that must be diagnosed; diagnostics {list(errs)}, initializer {how}")
                # clause 3: width narrowing of a non-constant value is diagnosed
                if form == "nonliteral" and od == "lt" and not c2 and ((k1 in TOWER and k2 in TOWER and TOWER[k2] >= TOWER[k1]) or k1 == k2):
                    R.ob("C08.5-narrowing-diagnosed", okey, diag, fn.at, f"declared {l1} (narrower) from a non-constant {l2} value: diagnostics {list(errs)}, initializer {how}")
    R.ob("C08.5-declaration-table", "width conditions understood", not unknown_terms, fn.at, f"width comparison terms not covered by the ordering model: {sorted(unknown_terms)[:4]}")
    R.floor("declaration decision-table rows", n, 900)


# ---------------------------------------------------------------- assignments

def assign_model(t1, texpr):
    def model(se, st, t, cal, args, site):
        a0 = deep_strip(args[0]) if args else None
        if cal.endswith("AssignmentStmt::identifier"):
            return ("adt", "std::option::Option::Some", (("sym", "name"),))
        if cal == S2S + "expr_to_asg_texpr":
            return ("adt", "std::option::Option::Some", (texpr,))
        if cal.endswith("::as_tuple"):
            return ("tuple", (("adt", "std::result::Result::Ok", (("sym", "symid"),)), t1))
        if cal.endswith("Option::<T>::unwrap") or cal.endswith("Option::unwrap"):
            if isinstance(a0, tuple) and a0[0] == "adt" and a0[1].endswith("Option::Some"):
                return a0[2][0]
        if cal.endswith("Result::<T, E>::is_ok") or cal.endswith("::is_ok"):
            if isinstance(a0, tuple) and a0[0] == "adt" and a0[1].endswith("Result::Ok"):
                return ("c", "bool", 1)
        if cal.endswith("as std::clone::Clone>::clone") and args:
            return args[0]
        return None
    return model


def assign_outcome(p, t1):
    errs = tuple(sorted(e for e in errors_on(p) if e != "MutateConstError"))
    how = "?"
    for nm, args, bb in p.calls:
        if nm.endswith("asg::Assignment::new"):
            v = deep_strip(args[1])
            if isinstance(v, tuple) and v[0] == "call" and v[1].endswith("Cast::to_texpr"):
                cn = deep_strip(v[2][0])
                ty = deep_strip(cn[2][1]) if cn[0] == "call" and cn[1].endswith("Cast::new") else None
                ty = deep_strip(ty)
                how = "cast-to-target" if ty == t1 else ("cast", ty)
            elif isinstance(v, tuple) and v[0] == "adt" and v[1].endswith("TExpr::TExpr"):
                how = "as-is"
            else:
                how = "other:" + show(v)[:40]
    return errs, how


_atab = {}


def assign_table(prog):
    if prog.dir in _atab:
        return _atab[prog.dir]
    fn = S2S + "assignment_stmt_to_asg_stmt"
    b = prog.body(fn)
    if b is None:
        return None
    rows = {}
    A1 = [x for c in SCALARS for x in C20.abstract_types(prog, c, "1")]
    A2 = [x for c in SCALARS for x in C20.abstract_types(prog, c, "2")]
    inl = lambda cal: inline_pred(cal) or cal.startswith(T + "Type::") or cal == A + "IntLiteral::sign"
    for l1, t1 in A1:
        for l2, t2 in A2:
            for fname, fterm in forms():
                # a literal has the type of its literal class: sized and const (C08.1)
                if fname.startswith("int") and l2 != "Int[w2,c]":
                    continue
                if fname == "float" and l2 != "Float[w2,c]":
                    continue
                texpr = ("adt", A + "TExpr::TExpr", (fterm, t2))
                se = SymExec(prog, b, inline=inl, call_model=assign_model(t1, texpr), max_paths=400)
                outs = set()
                for p in se.paths():
                    if "__diverged__" in p.env or "__cut__" in p.env:
                        outs.add((("<panic>",), "?", ()))
                        continue
                    wc = tuple(sorted((show(c[1])[:60], str(c[2])) for c in p.conds if c[0] == "switch" and ("v1" in show(c[1]) or "v2" in show(c[1]))))
                    e, how = assign_outcome(p, t1)
                    outs.add((e, how, wc))
                rows[(l1, l2, fname)] = (t1, t2, sorted(outs, key=repr))
    _atab[prog.dir] = rows
    return rows


def check_assign(prog, R):
    rows = assign_table(prog)
    if rows is None:
        R.ob("ANCHOR", "assignment_stmt_to_asg_stmt", False)
        return
    fn = prog.body(S2S + "assignment_stmt_to_asg_stmt")
    n = 0
    unknown_terms = set()
    for (l1, l2, form), (t1, t2, outs) in sorted(rows.items()):
        k1, k2 = base(l1), base(l2)
        w1, c1 = flags(l1)
        w2, c2 = flags(l2)
        for od in (("eq", "gt", "lt") if (w1 and w2) else ("-",)):
            n += 1
            key = f"{l1}<-{l2}:{form}" + (f":target-width-{od}-value-width" if od != "-" else "")
            sel = [(e, h) for e, h, wc in outs if od == "-" or feasible(wc, od)]
            for e, h, wc in outs:
                for term, _ in wc:
                    if holds(term, "eq") is None:
                        unknown_terms.add(term)
            if not sel:
                R.ob("C08.6-assignment-table", key, False, fn.at, f"no feasible outcome derived for this row (outcomes {outs[:2]})")
                continue
            sel2 = set()
            for errs, how in sel:
                if isinstance(how, tuple):
                    # Cast::new(value, promote_types(target, value)): resolve max(v1, v2) under the width ordering
                    sub = {"eq": ("sym", "v1"), "gt": ("sym", "v1"), "lt": ("sym", "v2")}.get(od)

                    def subst(t_):
                        if isinstance(t_, tuple) and t_:
                            if t_[0] in ("pure", "call") and len(t_) > 1 and isinstance(t_[1], str) and (t_[1] == "max" or t_[1].endswith("::max")) and sub is not None:
                                return sub
                            return tuple(subst(x) for x in t_)
                        return t_
                    how = "cast-to-target" if subst(how[1]) == t1 else "cast-to-other:" + show(how[1])[:60]
                sel2.add((errs, how))
            for errs, how in sorted(sel2):
                okey = f"{key}|{how}|{','.join(errs) or '-'}"
                if errs == ("<panic>",):
                    R.ob("C08.6-assignment-table", okey, False, fn.at, "the assignment check can panic on this (target type, value type) pair")
                    continue
                diag = bool(errs)
                same_type_utc = k1 == k2 and ((not w1 and not w2) or (w1 and w2 and od == "eq"))
                justified = diag or how == "cast-to-target" or (how == "as-is" and same_type_utc)
                R.ob("C08.6-assignment-justified", okey, justified, fn.at, f"target {l1}, value {l2} ({form}{', widths ' + od if od != '-' else ''}): diagnostics {list(errs)}, value {how}")
                down = (k1 in TOWER and k2 in TOWER and TOWER[k2] > TOWER[k1]) or (k1 != k2 and any(x in (k1, k2) for x in ("Bit", "Bool", "Duration", "Stretch", "Angle")))
                if (form == "nonliteral" and down) or (form == "int-" and k1 == "UInt"):
                    R.ob("C08.6-downward-diagnosed", okey, diag, fn.at, f"assignment to {l1} of a {l2} value ({form}): conversion that must be diagnosed; diagnostics {list(errs)}, value {how}")
                if form == "nonliteral" and od == "lt" and not c2 and ((k1 in TOWER and k2 in TOWER and TOWER[k2] >= TOWER[k1]) or k1 == k2):
                    R.ob("C08.6-narrowing-diagnosed", okey, diag, fn.at, f"assignment to {l1} (narrower) of a non-constant {l2} value: diagnostics {list(errs)}, value {how}")
    R.ob("C08.6-assignment-table", "width conditions understood", not unknown_terms, fn.at, f"width comparison terms not covered by the ordering model: {sorted(unknown_terms)[:4]}")
    R.floor("assignment decision-table rows", n, 900)
