"""C17 — invariance under layout and renaming, one pass, deterministic (effect discipline clauses)."""
import json, os
from collections import defaultdict
from kernel import *
from gram import VERIF
import inventory

DENY = ("std::env::", "std::time::", "std::thread::", "rand::", "getrandom", "std::sync::atomic", "thread_local", "std::process::", "std::net::")
FS = ("std::fs::", "std::env::var_os", "std::env::split_paths", "std::path::Path::is_file", "std::path::Path::is_absolute")
HASH_ITER = ("HashMap::iter", "HashMap::values", "HashMap::keys", "HashMap::drain", "HashMap::into_iter", "HashMap::retain", "HashSet::iter", "hash_map::Iter", "hash_map::Values", "hash_map::Keys", "HashMap<K, V, S> as std::iter::IntoIterator", "HashMap<K, V, S, A> as std::iter::IntoIterator")


def run(prog, R):
    R.explanation = ("Effect discipline: the parser's input type has exactly the fields kind and joint and jointness is read only by the composite-token lookahead; every comparison of "
                     "node / identifier text with a string constant in the typed AST and the analyser uses an allow-listed constant (no dependence on the spelling of user identifiers); "
                     "no iteration over hash containers, no clock / thread / rng / process effects in the analysis cone (file-system and QASM3_PATH reads only in the include resolver); "
                     "symbol ids come only from the counter; the program, the diagnostics and the symbol store are append-only and statements are visited once, in order.")
    R.not_decided = ["the relational statements themselves (equal graphs under layout change / renaming; prefix stability; equality of two runs)", "layout sensitivity inside the lexer (newlines in pragmas, annotations, strings)"]
    R.assumptions = ["spec/text_constants.json", "rustc MIR; resolved callees"]
    # ---- C17.1
    inp = prog.adts.get("oq3_parser::input::Input")
    if inp:
        fs = [f["name"] for f in inp["variants"][0]["fields"]]
        R.ob("C17.1-parser-sees-kinds-only", "Input fields", fs == ["kind", "joint"], "", f"Input has fields {fs}: the parser can observe token kinds and adjacency only")
        users = set()
        for k, b in prog.bodies.items():
            for bi, t in b.calls():
                if b.callee_of(t) == "oq3_parser::input::Input::is_joint":
                    users.add(k)
        R.ob("C17.1-parser-sees-kinds-only", "is_joint readers", users == {"oq3_parser::parser::Parser::at_composite2", "oq3_parser::parser::Parser::at_composite3"}, "", f"{sorted(inventory.ishort(u) for u in users)}")
        pf = [f["name"] for f in prog.adts["oq3_parser::parser::Parser"]["variants"][0]["fields"]]
        R.ob("C17.1-parser-sees-kinds-only", "Parser fields", pf == ["inp", "pos", "events", "steps"], "", f"{pf}")
    else:
        R.ob("ANCHOR", "Input", False)
    # ---- C17.2 text constants
    allowed = set(json.load(open(os.path.join(VERIF, "spec", "text_constants.json")))["allowed"])
    n = 0
    seen = defaultdict(set)
    for k, b in prog.bodies.items():
        if not (b.crate == "oq3_semantics" or k.startswith("oq3_syntax::ast::") or k.startswith("oq3_syntax::validation") or b.crate == "oq3_source_file"):
            continue
        if "::fmt" in k or k.endswith("Debug>::fmt") or "print" in k or "report_error" in k or k.startswith("oq3_syntax::ast::make") or k.startswith("oq3_syntax::ast::edit"):
            continue
        for bi, t in b.calls(include_cleanup=False):
            c = b.callee_of(t) or ""
            if c.endswith(("::eq", "::ne", "::starts_with", "::ends_with", "::contains", "::strip_prefix", "::find", "::rfind", "::split_once", "bcmp", "memcmp")) or "PartialEq" in c:
                for a in t["args"]:
                    for o in origins(prog, b, a, max_depth=4):
                        if o[0] == "const" and o[1] in ("&str", "&&str", "char") and isinstance(o[2], str):
                            seen[o[2]].add(inventory.ishort(k))
        for bl in b.blocks:
            if bl.cleanup:
                continue
            # `match s { "lit" => .. }` lowers to eq calls on constants (covered above)
    for s_, where_ in sorted(seen.items()):
        n += 1
        if s_.isdigit():
            continue
        R.ob("C17.2-text-constants", repr(s_), s_ in allowed, "", f"text is compared with the constant {s_!r} in {sorted(where_)[:3]}" + ("" if s_ in allowed else ": not in the allow-list — analysis may now depend on how a user spells an identifier"))
    R.floor("string constants compared with text", n, 10)
    # identifier text is opaque to the analyser: names are compared for equality, hashed, copied and printed, never
    # inspected or transformed (case folding, prefix tests, length, ordering) — otherwise the result depends on how
    # the user spells an identifier, not only on which identifiers are equal
    INSPECT = ("to_lowercase", "to_uppercase", "to_ascii_lowercase", "to_ascii_uppercase", "eq_ignore_ascii_case", "make_ascii_lowercase", "make_ascii_uppercase", "starts_with", "ends_with",
               "contains", "find", "rfind", "split", "splitn", "rsplit", "split_at", "split_once", "trim", "trim_start", "trim_end", "trim_matches", "trim_start_matches", "trim_end_matches", "strip_prefix",
               "strip_suffix", "replace", "replacen", "len", "is_empty", "bytes", "char_indices", "chars", "get", "cmp", "partial_cmp", "lt", "le", "gt", "ge", "parse", "matches", "is_char_boundary", "repeat")
    ALLOW_INSPECT = {("oq3_semantics::asg::BitStringLiteral::to_texpr", "chars"): "counts the bits of a bit-string *literal*", ("oq3_semantics::symbols::ScopeSymbolTable::len", "len"): "HashMap::len (not a string)"}
    nstr, badi = 0, []
    for b_ in prog.by_crate["oq3_semantics"]:
        if b_.npath.startswith(("oq3_semantics::semantic_error::", "oq3_semantics::display", "oq3_semantics::validate")) or "print" in b_.npath or "fmt" in b_.npath.split("::")[-1]:
            continue
        for bi, t in b_.calls():
            c = b_.callee_of(t) or ""
            tys = [x if isinstance(x, str) else json.dumps(x) for x in (t.get("argtys") or [])]
            if not tys or not any(s_ in tys[0] for s_ in ("&str", "&mut str", "String", "&&str")) or "HashMap" in tys[0] or "Vec<" in tys[0]:
                continue
            nstr += 1
            m = c.split("::")[-1]
            if m in INSPECT and (b_.npath, m) not in ALLOW_INSPECT:
                badi.append((inventory.ishort(b_.npath), m, t["at"]))
    R.ob("C17.2-names-are-opaque", "the analyser never inspects or transforms identifier text", not badi, badi[0][2] if badi else "",
         f"{nstr} calls with a string receiver in oq3_semantics, none inspects/transforms text" if not badi else f"text of a name is inspected or transformed: {[(a, m) for a, m, _ in badi][:4]}: the analysis now depends on the spelling of identifiers")
    R.floor("string-receiver call sites in oq3_semantics (positive control)", nstr, 30)
    # ---- C17.3 determinism
    roots = [k for k in prog.bodies if k.startswith("oq3_semantics::syntax_to_semantics::analyze_source") or k.startswith("oq3_semantics::syntax_to_semantics::parse_source")] + [k for k in prog.bodies if k.startswith("oq3_source_file::api::parse_source")]
    cone = prog.cone(roots)
    ext = prog.ext_calls()
    bad, fsuse = [], defaultdict(set)
    for f in cone:
        if "print" in f or "report_error" in f:
            continue
        for c in ext.get(f, ()):
            if any(x in c for x in HASH_ITER):
                bad.append((inventory.ishort(f), c))
            if any(c.startswith(x) or x in c for x in FS):
                fsuse[inventory.ishort(f)].add(c.split("::")[-1])
            elif any(x in c for x in DENY):
                bad.append((inventory.ishort(f), c))
    # type-based form of the hash-iteration rule: any iteration-like call whose receiver/argument type is a hash
    # container or one of its iterators (std or hashbrown), whatever the method is called
    ITER_METHODS = ("iter", "iter_mut", "into_iter", "keys", "values", "values_mut", "into_keys", "into_values", "drain", "retain", "next", "for_each", "fold", "collect", "extend", "difference", "union", "intersection", "symmetric_difference")
    HASHY = ("HashMap<", "HashSet<", "hash_map::", "hash_set::", "hashbrown::map::", "hashbrown::set::", "hashbrown::raw::")
    for f in cone:
        if "print" in f or "report_error" in f:
            continue
        b_ = prog.body(f)
        if b_ is None:
            continue
        for bi, t in b_.calls():
            c = b_.callee_of(t) or ""
            tys = [x if isinstance(x, str) else json.dumps(x) for x in (t.get("argtys") or [])]
            if tys and any(h in tys[0] for h in HASHY):
                R.count("hash container call sites seen by the type matcher")
            if c.split("::")[-1] in ITER_METHODS and tys and any(h in tys[0] for h in HASHY):
                bad.append((inventory.ishort(f), c.split(" as ")[0][-60:] + "::" + c.split("::")[-1] + " on " + tys[0][:60]))
    R.floor("positive control: hash container call sites (get/insert/contains_key) matched by receiver type", R.counters.get("hash container call sites seen by the type matcher", 0), 3)
    R.ob("C17.3-determinism", "no hash iteration / clock / thread / rng in the analysis cone", not bad, "", f"{len(cone)} functions; offending {bad[:4]}")
    ok_fs = set(fsuse) <= {"source_file::source_file::resolve_file_path", "source_file::source_file::resolve_file_path::{closure#0}", "source_file::source_file::get_file_search_paths_from_env", "source_file::source_file::get_file_search_paths_from_env::{closure#0}",
                           "source_file::source_file::read_source_file", "source_file::source_file::parse_included_files::parse_one_included", "source_file::source_file::SourceFile::new"}
    R.ob("C17.3-determinism", "file-system / environment reads only in the include resolver", ok_fs and bool(fsuse), "", f"{ {k: sorted(v) for k, v in fsuse.items()} }")
    R.premises(prog, "C17.1-lexer-layout-premise", ["C10:C10.1-", "C15:C15.5-", "C15:C15.3-", "C15:C15.2-", "C15:C15.4-"],
               "whether a blank may be inserted between two lexemes, or an identifier renamed, without changing the token classes rests on the lexer's tables: number + unit splitting, whitespace class, trivia / jointness handling, numeric suffix protocol, keyword / directive word boundaries, comment delimiters")
    R.premises(prog, "C17.1-trivia-placement-premise", ["C16:C16.6-", "C02:C02.3-"], "comments and blank space do not change what the analyser reads: trivia is never attached inside a node whose first token an accessor reads (n_attached_trivias is 0 for every kind the grammar completes, C16.6) and is re-inserted around tokens by one predicate (C02.3)")
    R.premises(prog, "C17.4-symbol-store-premise", ["C19:C19.1-", "C19:C19.5-"], "symbols once emitted are never changed: the symbol store is append-only (C19.1) and ids index it (C19.5)")
    import roles
    roles.check(prog, R, "C17.1-accessor-roles")       # the typed accessors select constituents among child *nodes*: comments and blanks between tokens do not change what they return
    R.premises(prog, "C17.4-diagnostics-premise", ["C18:C18.2-per-file-error-lists", "C12:C12.3-"], "diagnostics are append-only per file: the current error list is exchanged only by the entry/exit pair of syntax_to_semantic and written only through the Context")
    # ---- C17.4 append only, one pass
    for adt, fld in (("oq3_semantics::asg::Program", "stmts"), ("oq3_semantics::semantic_error::SemanticErrorList", "list"), ("oq3_semantics::semantic_error::SemanticErrorList", "include_errors")):
        if adt not in prog.adts:
            R.ob("ANCHOR", adt, False)
            continue
        sinks = set()
        for s in field_sites(prog, adt, fld):
            if s["mode"] in ("refmut", "write", "rawptr", "move"):
                b = s["body"]
                if b.npath.startswith("<") and ("Clone" in b.npath or "Debug" in b.npath):
                    continue
                if s["mode"] == "refmut" and s["idx"] != "T":
                    for x in forward_sinks(prog, b, s["stmt"]["lhs"]["l"]):
                        sinks.add((inventory.ishort(b.npath), x[1].split("::")[-1] if x[0] == "call" else x[0]))
                elif s["mode"] == "write" and s["stmt"].get("rv", {}).get("k") == "agg":
                    continue
                else:
                    sinks.add((inventory.ishort(b.npath), s["mode"]))
        ok = bool(sinks) and all(x[1] == "push" for x in sinks)
        R.ob("C17.4-append-only", f"{adt.split('::')[-1]}.{fld}", ok, "", f"mutations: {sorted(sinks)}")
