"""C05 — the AST mirrors the derivation: precedence, associativity, roles (structural clauses)."""
import json, os
from collections import defaultdict
from kernel import *
from sym import SymExec, show, deep_strip
import grammar_run
import grammar_ai, grammar_ai
from gram import *
import inventory

CUR_OP = "oq3_parser::grammar::expressions::current_op"
EXPR_BP = "oq3_parser::grammar::expressions::expr_bp"
SK = "oq3_parser::syntax_kind::syntax_kind_enum::SyntaxKind"
SPEC = os.path.join(VERIF, "spec")


def op_table(G):
    """operator kind name -> set of (bp, assoc) over all contexts of current_op"""
    tab = defaultdict(set)
    for key, outs in G.memo.items():
        if key[0] != CUR_OP:
            continue
        for o in outs:
            rv = o[5]
            if rv[0] != "agg" or len(rv[3]) != 3:
                continue
            bp, op, assoc = rv[3]
            if bp[0] != "i" or op[0] != "k" or assoc[0] != "agg":
                tab["?"].add((str(bp), str(assoc)))
                continue
            for b in grammar_ai.bits(op[1]):
                tab[G.kname[b]].add((bp[1], "Left" if assoc[2] == 0 else "Right"))
    return tab


def match_table(prog, fn, what):
    """rows of a `match token.kind() { K => value }` function: kind name -> result term (string)"""
    b = prog.body(fn)
    rows = {}
    if not b:
        return None
    for p in SymExec(prog, b, max_paths=5000).paths():
        if "__diverged__" in p.env or "__cut__" in p.env:
            continue
        kinds = None
        for c in p.conds:
            if c[0] == "switch" and c[2][0] == "eq" and "kind" in show(c[1]):
                kinds = c[2][1]
        r = deep_strip(p.env.get(0))
        if kinds is not None:
            rows[kinds] = r
    return rows


def run(prog, R):
    R.explanation = ("Decision-table lints: the operator table of the Pratt parser (binding power, associativity per operator), extracted by the abstract "
                     "interpreter as the summary of current_op over all lookahead windows, is compared row-wise with the OpenQASM 3 precedence table; the token->operator "
                     "tables of BinExpr::op_details / PrefixExpr::op_kind are compared with the operator meanings and with the parser's table; the nesting mechanism of expr_bp "
                     "(right operand parsed at op_bp+1 for left-associative, op_bp for right-associative operators; lhs.precede .. complete(BIN_EXPR)) is checked on the MIR; "
                     "accessor DISTINCT-ness (two differently named accessors of one node type must not be the same function).")
    R.not_decided = ["that the event->tree conversion realises the nesting for every event sequence", "accessor ROLE obligations over tree shapes (K8) are not built; only the DISTINCT first cut is armed",
                     "roles of statement accessors for all programs"]
    R.assumptions = ["spec/precedence.json and spec/operators.json are transcribed correctly from the OpenQASM 3 specification", "abstract interpreter models (see C01)"]
    G = grammar_run.get(prog)
    spec = json.load(open(os.path.join(SPEC, "precedence.json")))
    ops = json.load(open(os.path.join(SPEC, "operators.json")))
    cb = R.anchor(prog, CUR_OP)
    eb = R.anchor(prog, EXPR_BP)
    if not cb or not eb:
        return
    tab = op_table(G)
    R.floor("operators in the parser's table", len(tab), 30)
    R.ob("C05.1-table-extracted", "current_op", "?" not in tab and all(len(v) == 1 for v in tab.values()), cb.at, f"{len(tab)} operators, each with a unique (binding power, associativity); ambiguous: {[k for k, v in tab.items() if len(v) != 1][:5]}")
    bp = {k: sorted(v)[0][0] for k, v in tab.items() if k != "?"}
    assoc = {k: sorted(v)[0][1] for k, v in tab.items() if k != "?"}
    levels = [l for l in spec["levels"] if not l.get("prefix")]
    for l in levels:
        for o in l["ops"]:
            R.ob("C05.1-operator-present", o, o in bp, cb.at, f"binary operator {o} has a row in the parser's table")
        present = [o for o in l["ops"] if o in bp]
        same = len({bp[o] for o in present}) <= 1
        R.ob("C05.1-same-level", l["name"], same, cb.at, f"operators of level '{l['name']}' share one binding power: { {o: bp[o] for o in present} }")
        for o in present:
            R.ob("C05.1-associativity", o, assoc[o] == l["assoc"], cb.at, f"{o} is {assoc[o]}-associative in the parser, {l['assoc']} in the specification")
    for i, hi in enumerate(levels):
        for lo in levels[i + 1:]:
            a = [bp[o] for o in hi["ops"] if o in bp]
            b_ = [bp[o] for o in lo["ops"] if o in bp]
            ok = bool(a) and bool(b_) and min(a) > max(b_)
            R.ob("C05.1-order", f"{hi['name']}>{lo['name']}", ok, cb.at, f"'{hi['name']}' {dict((o, bp.get(o)) for o in hi['ops'])} must bind tighter than '{lo['name']}' {dict((o, bp.get(o)) for o in lo['ops'])}")
    # prefix operators vs pow: the operand of a prefix operator is parsed with which minimum binding power?
    lhs_calls = {k: v for k, v in G.callargs.items() if k[0] == "oq3_parser::grammar::expressions::lhs" and k[1] == EXPR_BP}
    pbps = sorted({a[1] for vs in lhs_calls.values() for args in vs for a in args if a[0] == "i"})
    R.ob("C05.1-order", "pow>unary", bool(pbps) and "DOUBLE_STAR" in bp and all(x <= bp["DOUBLE_STAR"] for x in pbps), prog.body("oq3_parser::grammar::expressions::lhs").at,
         f"prefix operators parse their operand with minimum binding power {pbps}; `**` has {bp.get('DOUBLE_STAR')}: per the specification `-a ** b` is -(a ** b), which requires the operand to admit `**`")
    # prefix operators vs every other binary level: `!a + b`, `-a * b`, `~a << 2` apply the operator to `a` alone, so the
    # operand of each prefix operator is parsed with a minimum binding power above every binary level except `**`
    allargs = [a for vs in lhs_calls.values() for args in vs for a in args[1:2]] or [a for vs in lhs_calls.values() for args in vs for a in args]
    nonconst = [a for vs in lhs_calls.values() for args in vs for a in args if a[0] not in ("i",) and a[0] in ("?", "var", "phi")]
    for lo in levels:
        if "DOUBLE_STAR" in lo["ops"]:
            continue
        b_ = [bp[o] for o in lo["ops"] if o in bp]
        oku = bool(pbps) and bool(b_) and min(pbps) > max(b_) and not nonconst
        R.ob("C05.1-order", f"unary>{lo['name']}", oku, prog.body("oq3_parser::grammar::expressions::lhs").at,
             f"prefix operators parse their operand with minimum binding power {pbps}; level '{lo['name']}' has {dict((o, bp.get(o)) for o in lo['ops'])}: an operand parsed with a lower minimum swallows these operators (`!a + b` becomes !(a + b))")
    # assignment below every binary operator (C04.3 shares this)
    binmin = min(bp[o] for l in levels for o in l["ops"] if o in bp)
    for o in spec["assignment_ops"]:
        if o in bp:
            R.ob("C05.1-assignment-lowest", o, bp[o] < binmin, cb.at, f"{o} has binding power {bp[o]}; every binary operator must bind tighter (lowest binary: {binmin}), otherwise `x {o} a + b` does not take `a + b` as its right-hand side")

    # ---- C05.2 token -> operator tables
    rows = match_table(prog, "oq3_syntax::ast::expr_ext::BinExpr::op_details::{closure#1}", "binary")
    if rows is None:
        R.ob("ANCHOR", "BinExpr::op_details closure", False)
    else:
        byname = {G.kname[k]: v for k, v in rows.items()}
        R.floor("BinExpr::op_details rows", len(byname), 31)
        for name, want in ops["binary"].items():
            got = byname.get(name)
            s = None
            if got is not None and got[0] == "adt" and got[1].endswith("Option::Some"):
                t = got[2][0]
                if t[0] == "tuple":
                    s = show(t[1][1]).replace("BinaryOp::", "", 1)
            R.ob("C05.2-op_details", name, s == want, prog.body("oq3_syntax::ast::expr_ext::BinExpr::op_details::{closure#1}").at, f"{name} => {s}; specification meaning {want}")
        for o in bp:
            if o in ("DOT3", "DOT2", "DOT2EQ"):
                continue
            R.ob("C05.2-parser-ops-have-meaning", o, o in byname, cb.at, f"the parser can build a BIN_EXPR/assignment with operator {o}; BinExpr::op_details must have a row for it (otherwise op_kind() is None)")
    rows = match_table(prog, "oq3_syntax::ast::expr_ext::PrefixExpr::op_kind", "prefix")
    if rows is None:
        R.ob("ANCHOR", "PrefixExpr::op_kind", False)
    else:
        byname = {G.kname[k]: v for k, v in rows.items()}
        for name, want in ops["prefix"].items():
            got = byname.get(name)
            s = show(got[2][0]) if got is not None and got[0] == "adt" and got[2] else None
            R.ob("C05.2-prefix-op_kind", name, s == want, prog.body("oq3_syntax::ast::expr_ext::PrefixExpr::op_kind").at, f"{name} => {s}; expected {want}")

    # ---- C05.4 postfix forms (call, index) bind tighter than prefix and binary operators: the operand handed to
    # call_expr / index_expr / indexed_identifier / postfix_expr is never a completed PREFIX_EXPR or BIN_EXPR
    # (node kinds of the CompletedMarker argument, collected by the abstract interpreter over all contexts)
    LOOSE = {"PREFIX_EXPR", "BIN_EXPR", "ASSIGNMENT_STMT", "RANGE_EXPR"}
    npost = 0
    for (caller, callee), mask in sorted(G.cm_kinds.items()):
        if not callee.endswith(("::call_expr", "::index_expr", "::indexed_identifier", "::postfix_expr")):
            continue
        npost += 1
        names = {"?"} if mask < 0 else {G.allkinds.get(i, str(i)) for i in grammar_ai.bits(mask)}
        bad = sorted(names & (LOOSE | {"?"}))
        R.ob("C05.4-postfix-binds-tightest", f"{short(caller)}->{callee.split('::')[-1]}", not bad, prog.body(callee).at,
             f"operand kinds: {sorted(names)[:6]}… ({len(names)})" if not bad else
             f"a postfix form is applied to a completed {bad}: `-a[0]` / `-f(x)` would index or call the negated expression instead of negating the element / result")
    R.floor("call edges into postfix forms", npost, 4)
    # ---- C05.4 which node a keyword / punctuation token becomes a child of: consumed while the innermost open marker
    # is the caller's (the statement node handed in) or a locally started one; compared with the frozen table
    ntp, moved = 0, []
    for e in json.load(open(os.path.join(VERIF, "spec", "token_parent.json"))):
        have = G.token_parent.get((e["fn"], e["kind"]))
        if have is None:
            continue            # the token is no longer consumed by this function (refactoring): nothing to compare
        ntp += 1
        if have != [e["parent"]]:
            moved.append((short(e["fn"]), e["kind"], e["parent"], have))
    for fn_, k_, was, now in moved:
        R.ob("C05.4-token-parent", f"{fn_}:{k_}", False, prog.body("oq3_parser::" + fn_).at if prog.body("oq3_parser::" + fn_) else "",
             f"{k_} used to be consumed under a marker that was {was} and is now consumed under {now}: the token became a child of a different node (e.g. `else` inside the nested if), so the typed accessors of both nodes see the wrong constituents")
    R.ob("C05.4-token-parent", "all-pairs", not moved, "", f"{ntp} (grammar function, token) pairs compared with the frozen table")
    R.floor("token-parent pairs", ntp, 150)
    # ---- C05.4 a keyword is a child of the node kind whose typed struct has the accessor for it: from the interpreter,
    # per completed node kind the token kinds consumed directly under its marker on the same path; from the typed AST,
    # per keyword the structs with a `support::token(.., KW)` accessor and each struct's kind (can_cast).  A keyword
    # with accessors that is consumed directly under a node kind of a struct without one (`negctrl` under CTRL_MODIFIER)
    # makes the typed view report the wrong construct.
    from kernel import origins as _orig
    acc, kind_of = {}, {}
    for b_ in prog.by_crate["oq3_syntax"]:
        if "ast::generated::nodes::" in b_.npath and b_.npath.endswith("AstNode>::can_cast"):
            S_ = b_.npath.split("nodes::")[1].split(" as")[0]
            for bi_, t_ in b_.calls():
                if (b_.callee_of(t_) or t_.get("callee", "")).endswith("::eq"):
                    ks_ = {og[2] for og in _orig(prog, b_, t_["args"][1], max_depth=4) if og[0] == "agg"}
                    if len(ks_) == 1:
                        kind_of[ks_.pop()] = S_
        if "ast::generated::nodes::" in b_.npath or "ast::node_ext" in b_.npath:
            for bi_, t_ in b_.calls():
                if (b_.callee_of(t_) or "").endswith("support::token"):
                    for og in _orig(prog, b_, t_["args"][1], max_depth=3):
                        if og[0] == "agg" and og[2].endswith("_KW"):
                            acc.setdefault(og[2], set()).add(b_.npath.split("::")[-2])
    enum_alts = [{(f.get("ty", "") or "").split("::")[-1] for v_ in a_["variants"] for f in v_.get("fields", [])} for k_, a_ in prog.adts.items() if "ast::generated::nodes::" in k_ and len(a_["variants"]) > 1]
    R.floor("typed AST enums", len(enum_alts), 5)
    R.floor("keywords with a typed token accessor", len(acc), 35)
    R.floor("node kinds with a typed struct", len(kind_of), 70)
    npairs, badkw = 0, []
    for km_, tm_ in sorted(G.node_tokens.items()):
        if km_ <= 0 or km_ & (km_ - 1):
            continue            # the completed kind is not a single constant on this path
        N_ = G.allkinds.get(km_.bit_length() - 1)
        S_ = kind_of.get(N_)
        if S_ is None:
            continue
        for kb_ in grammar_ai.bits(tm_):
            K_ = G.allkinds.get(kb_, "")
            if K_ in acc:
                npairs += 1
                # a discrepancy: the keyword has accessors, this struct has none for it, and either this struct
                # is an alternative of the same enum as one that has (the construct is presented as a different
                # alternative) or it has keyword accessors of its own (its keyword vocabulary is declared)
                sib = any(S_ in alts and (acc[K_] & alts) for alts in enum_alts)
                own = any(S_ in v_ for v_ in acc.values())
                if S_ not in acc[K_] and (sib or own):
                    badkw.append((K_, N_, sorted(acc[K_])))
    for K_, N_, want_ in badkw:
        R.ob("C05.4-keyword-under-its-node", f"{K_}:{N_}", False, "", f"the grammar can complete a {N_} node whose direct child is the keyword {K_}, but only {want_} have a token accessor for it ({kind_of.get(N_)} has none): the typed view presents this construct as a different one")
    if not badkw:
        R.ob("C05.4-keyword-under-its-node", "all-pairs", True, "", f"{npairs} (keyword, node kind) pairs: each keyword with a typed accessor is consumed directly under a node kind whose struct has that accessor")
    R.floor("keyword/node pairs", npairs, 30)
    # ---- C05.3 positional accessors count on mandatory operands: each window of spec/mandatory_operands.json (one
    # operand missing) is rejected by the grammar function; if it were accepted, the remaining same-kind children
    # would shift into the role of the missing one (`a[:3]`: stop read as start)
    nm_ = 0
    for e_ in json.load(open(os.path.join(VERIF, "spec", "mandatory_operands.json")))["probes"]:
        outs_ = getattr(G, "mandatory_probe", {}).get((e_["fn"], tuple(e_["tokens"])))
        if outs_ is None:
            R.ob("C05.3-positional-operands-mandatory", f"{short(e_['fn'])}:{' '.join(e_['tokens'])}", False, "", "the probe could not be evaluated (function or token kind not found)")
            continue
        nm_ += 1
        import roles as _roles
        if e_.get("accessor") and not _roles.as_reviewed(prog, e_["accessor"]):
            continue        # the accessor no longer selects by position as reviewed: C05.3-ROLE-positional reports that
        clean_ = [o_ for o_ in outs_ if not o_[1]]
        R.ob("C05.3-positional-operands-mandatory", f"{short(e_['fn'])}:{' '.join(e_['tokens'])}", not clean_, prog.body(e_["fn"]).at,
             f"rejected: {e_['missing']} is mandatory" if not clean_ else
             f"`{' '.join(e_['tokens'])}` is accepted without a diagnostic ({outs_}) although the {e_['missing']} is missing: the accessor that selects operands by position then reads another operand in its place")
    R.floor("mandatory-operand probes", nm_, 10)
    # ---- C05.3 PRESENT: constituents that the typed accessors (and the analyser) expect on every diagnostic-free parse:
    # the grammar function of the statement completes a node of that kind on every path (or reports a syntax error)
    import shapes
    seen_facts = set()
    for e in json.load(open(os.path.join(VERIF, "spec", "reviewed_sites.json"))):
        for f_, ks_, or_err in e.get("completes", []):
            fk = (f_, tuple(ks_), or_err)
            if fk in seen_facts:
                continue
            seen_facts.add(fk)
            okp = shapes.always_completes(prog, f_, ks_, or_error=or_err) is True
            R.ob("C05.3-PRESENT", f"{short(f_)}:{'|'.join(ks_[:3])}", okp, prog.body(f_).at if prog.body(f_) else "",
                 f"every path of {f_.split('::')[-1]} completes a {'/'.join(ks_[:3])} node" + (" or reports a syntax error" if or_err else "") if okp else
                 f"{f_.split('::')[-1]} can return without completing a {'/'.join(ks_[:3])} node: the typed accessor for that constituent returns None on an accepted program")
    R.floor("must-complete facts", len(seen_facts), 12)
    # ---- C05.4 a non-list expression node is closed before control can loop: between Parser::start and the completion
    # of PREFIX_EXPR / PAREN_EXPR / CAST_EXPRESSION / RETURN_EXPR (one operator or keyword, one operand) there is no loop
    NONLIST = {"PREFIX_EXPR", "PAREN_EXPR", "CAST_EXPRESSION", "RETURN_EXPR", "MEASURE_EXPRESSION"}
    nst = 0
    for b in prog.by_crate["oq3_parser"]:
        if not b.npath.startswith("oq3_parser::grammar::"):
            continue
        comp_blocks = {}
        for bi, t in b.calls():
            if (b.callee_of(t) or "").endswith("Marker::complete"):
                ks_ = {og[2] for og in origins(prog, b, t["args"][2], max_depth=3) if og[0] == "agg"}
                comp_blocks[bi] = ks_
        if not any(ks_ and ks_ <= NONLIST for ks_ in comp_blocks.values()):
            continue
        starts = [bi for bi, t in b.calls() if (b.callee_of(t) or "").endswith("Parser::start")]
        closes = {bi for bi, t in b.calls() if (b.callee_of(t) or "").endswith(("Marker::complete", "Marker::abandon"))}
        succ = b.succ()
        for o, sb in enumerate(starts):
            region, stack = set(), [sb]
            reach_kinds = set()
            while stack:
                x = stack.pop()
                if x in region or b.blocks[x].cleanup:
                    continue
                region.add(x)
                if x in closes and x != sb:
                    reach_kinds |= comp_blocks.get(x, set())
                    continue
                stack.extend(succ[x])
            if not (reach_kinds and reach_kinds <= NONLIST):
                continue
            nst += 1
            inner = region - closes

            def reach_(x0):
                seen, st = set(), [y for y in succ[x0] if y in inner]
                while st:
                    y = st.pop()
                    if y in seen:
                        continue
                    seen.add(y)
                    st.extend(z for z in succ[y] if z in inner)
                return seen
            loopb = {x for x in inner if x in reach_(x)}
            R.ob("C05.4-one-node-per-application", f"{short(b.npath)}:start{o}:{'|'.join(sorted(reach_kinds))}", not loopb, b.blocks[sb].term["at"],
                 "no loop between the start of the node and its completion" if not loopb else
                 f"a loop lies between Parser::start and the completion of {sorted(reach_kinds)}: several operators / operands are collected into one node (`- -a` becomes one PREFIX_EXPR with two operator tokens) instead of nesting")
    R.floor("non-list expression nodes started with Parser::start", nst, 3)
    import roles
    roles.check(prog, R, "C05.3-ROLE-positional")
    # ---- C05.4 one node per application: a node opened around an already parsed operand (`lhs.precede(p)`: binary,
    # index, call, cast-like postfix forms) is completed before control can loop, so that `a[i][j]`, `a+b+c`, ..
    # nest (one node per operator application, as in the derivation) instead of flattening into one node
    import shapes as _shapes
    MH_ = _shapes.marker_helpers(prog)      # private functions that are handed the open marker and always close it
    npre = 0
    for b in prog.by_crate["oq3_parser"]:
        if not b.npath.startswith("oq3_parser::grammar::"):
            continue
        pres = [bi for bi, t in b.calls() if (b.callee_of(t) or "").endswith("CompletedMarker::precede")]
        if not pres:
            continue
        closes = {bi for bi, t in b.calls() if (b.callee_of(t) or "").endswith(("Marker::complete", "Marker::abandon")) or (b.callee_of(t) or "") in MH_}
        succ = b.succ()
        for o, pb in enumerate(pres):
            npre += 1
            # region reachable from the precede block without passing a close
            region, stack = set(), [pb]
            while stack:
                x = stack.pop()
                if x in region or b.blocks[x].cleanup:
                    continue
                region.add(x)
                if x in closes and x != pb:
                    continue
                stack.extend(succ[x])
            inner = region - closes
            # blocks of the region that lie on a cycle inside it
            def reach(x0):
                seen, st = set(), [y for y in succ[x0] if y in inner]
                while st:
                    y = st.pop()
                    if y in seen:
                        continue
                    seen.add(y)
                    st.extend(z for z in succ[y] if z in inner)
                return seen
            loopb = {x for x in inner if x in reach(x)}
            if not loopb:
                R.ob("C05.4-one-node-per-application", f"{short(b.npath)}:{o}", True, b.blocks[pb].term["at"], f"{len(inner)} blocks between precede and the node's completion, loop-free")
                continue
            # a loop is legitimate only for a node that is a *list* by design: the typed AST of the completed kind
            # offers an AstChildren<..> accessor for the kind of node the loop body builds
            def camel(k):
                return "".join(w.capitalize() for w in k.split("_"))

            def kinds_completed(body, blocks=None):
                out = set()
                for bi, t in body.calls():
                    if (blocks is None or bi in blocks) and (body.callee_of(t) or "").endswith("Marker::complete"):
                        for og in origins(prog, body, t["args"][2], max_depth=3):
                            out.add(og[2] if og[0] == "agg" else "?")
                return out
            node_kinds = kinds_completed(b, region & closes)
            child_kinds = set()
            for x in loopb:
                t = b.blocks[x].term
                if t["k"] == "call":
                    cal = b.callee_of(t) or ""
                    if cal.startswith("oq3_parser::grammar::") and prog.body(cal):
                        child_kinds |= kinds_completed(prog.body(cal))
            okl = bool(node_kinds) and bool(child_kinds) and "?" not in node_kinds | child_kinds
            det = []
            for nk in sorted(node_kinds):
                for ck in sorted(child_kinds):
                    want = f"oq3_syntax::ast::AstChildren<oq3_syntax::ast::generated::nodes::{camel(ck)}>"
                    pref = f"oq3_syntax::ast::generated::nodes::{camel(nk)}::"
                    has = [k for k, ab in prog.bodies.items() if k.startswith(pref) and "{closure" not in k and ab.local_ty(0) == want]
                    det.append(f"{camel(nk)} -> AstChildren<{camel(ck)}>: {[h.split('::')[-1] for h in has] or 'NO list accessor'}")
                    okl = okl and bool(has)
            R.ob("C05.4-one-node-per-application", f"{short(b.npath)}:{o}", okl, b.blocks[pb].term["at"],
                 ("loop between precede and completion builds a list node by design: " if okl else
                  "a loop lies between `lhs.precede(p)` and the completion of the node, but the typed AST reads a single child there: repeated applications (e.g. several subscripts) are collected into one node instead of nesting, and all but the first are unreachable through the accessors: ") + "; ".join(det))
    R.floor("precede sites in the grammar", npre, 5)
    # ---- C05.4 nesting mechanism in expr_bp
    rec = [(bi, t) for bi, t in eb.calls() if eb.callee_of(t) == EXPR_BP]
    ok = len(rec) == 1
    det = f"{len(rec)} recursive calls"
    if ok:
        bi, t = rec[0]
        d = Defs(eb)
        arg = t["args"][3]
        # the 4th argument is a local assigned in two blocks selected by discr(associativity)
        l = arg["pl"]["l"]
        # follow plain copies
        seen = set()
        defs_ = []
        st = [l]
        while st:
            x = st.pop()
            if x in seen:
                continue
            seen.add(x)
            for (b0, i0, kind, payload) in d.defs.get(x, []):
                if kind == "assign":
                    rv = payload["rv"]
                    if rv["k"] == "use" and rv["op"].get("k") in ("copy", "move") and not rv["op"]["pl"]["p"]:
                        st.append(rv["op"]["pl"]["l"])
                        defs_.append((b0, "copy", rv["op"]["pl"]["l"]))
                    elif rv["k"] == "use" and rv["op"].get("k") in ("copy", "move"):
                        defs_.append((b0, "proj", rv["op"]["pl"]))
                        st.append(rv["op"]["pl"]["l"])
                    elif rv["k"] == "binop":
                        defs_.append((b0, rv["op"], const_of(rv["b"])))
        adds = [x for x in defs_ if x[1] in ("AddWithOverflow", "Add") and x[2] == 1]
        # the Add block must be control dependent on associativity == Left (discriminant 0)
        sw = [(b.idx, b.term) for b in eb.blocks if b.term["k"] == "switch" and "Associativity" in str(eb.local_ty(b.term["discr"]["pl"]["l"]) if b.term["discr"].get("pl") else "")]
        assoc_sw = []
        for b in eb.blocks:
            for s_ in b.stmts:
                if s_["k"] == "assign" and s_["rv"]["k"] == "discr" and "Associativity" in s_["rv"].get("ty", ""):
                    assoc_sw.append(b.idx)
        ok = len(adds) == 1 and len(assoc_sw) == 1
        if ok:
            swb = eb.blocks[assoc_sw[0]].term
            left_target = [c[1] for c in swb["cases"] if c[0] == "0"]
            right_target = [c[1] for c in swb["cases"] if c[0] == "1"]
            add_bb = adds[0][0]
            reach_left = eb.reachable(left_target[0]) if left_target else set()
            reach_right = eb.reachable(right_target[0]) if right_target else set()
            dom = eb.dominators()
            ok = bool(left_target) and left_target[0] in dom[add_bb] and (not right_target or right_target[0] not in dom[add_bb])
            det = f"op_bp+1 computed in bb{add_bb}, dominated by the Left arm bb{left_target}; Right arm bb{right_target} passes op_bp unchanged"
            vs = prog.enum_variants("oq3_parser::grammar::expressions::Associativity")
            ok = ok and vs == [("Left", 0), ("Right", 1)]
    R.ob("C05.4-right-operand-binding-power", "expr_bp", ok, eb.at, det)
    # order: precede -> bump(op) -> recursive call -> complete
    seq = []
    for bi, t in eb.calls():
        c = eb.callee_of(t) or ""
        if c.endswith(("CompletedMarker::precede", "Parser::bump", "Marker::complete")) or c == EXPR_BP:
            seq.append((bi, c.split("::")[-1]))
        elif c in _shapes.marker_helpers(prog):
            seq.append((bi, "complete"))
    dom = eb.dominators()
    pre = [b for b, c in seq if c == "precede"]
    bump = [b for b, c in seq if c == "bump"]
    comp = [b for b, c in seq if c == "complete"]
    ok = len(pre) == 1 and len(bump) == 1 and len(rec) == 1 and pre[0] in dom[bump[0]] and bump[0] in dom[rec[0][0]] and all(rec[0][0] in dom[c] for c in comp) and len(comp) >= 1
    R.ob("C05.4-binary-node-shape", "precede;bump(op);expr_bp;complete", ok, eb.at, f"call order in the operator loop: precede bb{pre}, bump bb{bump}, recursive expr_bp bb{[r[0] for r in rec]}, complete bb{comp}")
    kinds = set()
    for b0 in comp:
        hc_ = eb.callee_of(eb.blocks[b0].term) or ""
        if hc_ in _shapes.marker_helpers(prog):
            kinds |= _shapes.marker_helpers(prog)[hc_]
            continue
        o = origins(prog, eb, eb.blocks[b0].term["args"][2])
        kinds |= {x[2] for x in o if x[0] == "agg" and x[1] == SK}
    R.ob("C05.4-binary-node-shape", "completed-kinds", kinds == {"BIN_EXPR", "ASSIGNMENT_STMT"}, eb.at, f"nodes completed after the right operand: {sorted(kinds)}")

    # ---- C05.3 DISTINCT (first cut): differently named accessors of one node type that are the same function
    acc = defaultdict(list)
    for k, b in prog.bodies.items():
        if b.crate != "oq3_syntax" or "{closure" in k:
            continue
        if not (k.startswith("oq3_syntax::ast::node_ext::") or k.startswith("oq3_syntax::ast::expr_ext::") or k.startswith("oq3_syntax::ast::generated::nodes::")):
            continue
        parts = k.split("::")
        if len(parts) < 2 or b.nargs != 1:
            continue
        ty, name = parts[-2], parts[-1]
        sig = canonical_body(b)
        acc[(ty, sig)].append((name, b))
    n = 0
    for (ty, sig), lst in sorted(acc.items(), key=lambda x: x[0][0]):
        n += len(lst)
        if len(lst) > 1:
            names = sorted(x[0] for x in lst)
            R.ob("C05.3-DISTINCT", f"{ty}:{'='.join(names)}", False, lst[0][1].at, f"accessors {names} of {ty} have identical bodies (same generic instantiation): they cannot denote different constituents")
    R.ob("C05.3-DISTINCT", "accessors-compared", True, "", f"{n} single-argument accessor bodies of the typed AST compared pairwise within each node type")
    R.floor("AST accessor bodies compared", n, 280)


def canonical_body(b, subst=None):
    """MIR of a body modulo local numbering and source positions (locals are renamed in order of first occurrence).
    subst: {bits string: placeholder} applied to char constants and switch case values (string constants are then
    ignored) — used to compare sibling functions that differ only in one character constant."""
    ren = {}
    subst = subst or {}

    def L(l):
        if l not in ren:
            ren[l] = len(ren)
        return ren[l]

    def P(pl):
        return (L(pl["l"]), tuple((p[0], p[1] if len(p) > 1 and p[0] in ("field", "downcast", "cindex") else None) for p in pl["p"]))

    def O(op):
        k = op.get("k")
        if k in ("copy", "move"):
            return ("pl", P(op["pl"]))
        if subst:
            bits = subst.get(str(op.get("bits")), op.get("bits")) if op.get("ty") == "char" else op.get("bits")
            return ("const", op.get("ty"), bits, None, op.get("fn") if not (op.get("fn") or "").endswith("{closure") else None, None, None)
        return ("const", op.get("ty"), op.get("bits"), op.get("str"), op.get("fn"), op.get("item"), json.dumps(op.get("value"), sort_keys=True) if "value" in op else None)

    out = [b.local_ty(0), b.nargs]
    for bl in b.blocks:
        row = [bl.cleanup]
        for s_ in bl.stmts:
            if s_["k"] == "assign":
                rv = s_["rv"]
                k = rv["k"]
                if k in ("ref", "rawptr", "discr"):
                    r = (k, rv.get("mut"), P(rv["pl"]))
                else:
                    r = (k, rv.get("op") if isinstance(rv.get("op"), str) else None, rv.get("adt"), rv.get("variant"), rv.get("kind"), rv.get("to"),
                         tuple(O(x) for x in operands_of_rv(rv)))
                row.append(("assign", P(s_["lhs"]), r))
            else:
                row.append((s_["k"],))
        t = bl.term
        k = t["k"]
        if k == "call":
            row.append(("call", t.get("resolved") or t.get("callee"), json.dumps(t.get("rargs") or t.get("gargs"), sort_keys=True), tuple(O(a) for a in t["args"]), P(t["dest"]), t["target"]))
        elif k == "switch":
            row.append(("switch", O(t["discr"]), tuple((subst.get(str(c[0]), c[0]) if t.get("ty") == "char" else c[0], c[1]) for c in t["cases"]), t["otherwise"]))
        elif k == "drop":
            row.append(("drop", P(t["pl"]), t["target"]))
        elif k == "assert":
            row.append(("assert", O(t["cond"]), t["expected"], t["target"]))
        else:
            row.append((k, t.get("target")))
        out.append(row)
    return json.dumps(out, sort_keys=True, default=str)
