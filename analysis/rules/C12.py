"""C12 — diagnostics carry valid spans; a diagnostic-free tree has no error nodes."""
from kernel import *
import grammar_run
from gram import *
import inventory

PP = "oq3_parser::parser::"
SK = "oq3_parser::syntax_kind::syntax_kind_enum::SyntaxKind"
# where a span may come from (boundary-valued sources)
SPAN_SOURCES = (
    "oq3_parser::lexed_str::LexedStr::text_range", "oq3_parser::lexed_str::LexedStr::text_start",
    "rowan::TextRange::new", "text_size::TextRange::new", "text_size::TextRange::empty", "text_size::TextRange::start", "text_size::TextRange::end",
    "rowan::api::SyntaxNode::text_range", "rowan::api::SyntaxToken::text_range", "rowan::cursor::SyntaxNode::text_range",
)


def span_origin_ok(o, extra=()):
    k = o[0]
    if k == "call":
        c = o[1] or ""
        return c.endswith(("LexedStr::text_range", "LexedStr::text_start", "SyntaxNode::text_range", "SyntaxToken::text_range", "::text_range", "::text_start", "TextRange::empty", "TextRange::start", "TextRange::end", "::syntax")) or c in extra
    return k in ("arg", "const", "agg", "fnitem")


PASS_THROUGH = ("TextRange::new", "TextSize::new", "TextSize::from", "::try_into", "::try_from", "::from", "::into", "::unwrap", "Range<Idx>::new")


def deep_origins(prog, b, operand):
    """origins(), continued through range/offset constructors: the operands of TextRange::new(..), try_into(), ..
    are traced as well, so that a range assembled from a non-boundary value is seen."""
    out, work, seen = set(), [operand], set()
    while work:
        op = work.pop()
        for o in origins(prog, b, op):
            if o in seen:
                continue
            seen.add(o)
            if o[0] == "call" and (o[1] or "").endswith(PASS_THROUGH) and o[2] is not None and b.blocks[o[2]].term.get("args"):
                work.extend(b.blocks[o[2]].term["args"])
            else:
                out.add(o)
    return out


def who_inserts(prog, R, rule):
    """A semantic diagnostic carries the range of a node of the file being analysed; it is valid only relative to
    that file's text.  Who-may-call rule: SemanticErrorList::insert is reached only through the Context (whose list
    is the one of the file under analysis: C18.2 checks the swap pairing); no other code inserts into a list it
    holds itself (e.g. the list of an included file)."""
    ins = "oq3_semantics::semantic_error::SemanticErrorList::insert"
    callers = sorted(k for k, b in prog.bodies.items() for _, t in b.calls() if (b.callee_of(t) or "") == ins)
    bad = [k for k in callers if not k.startswith("oq3_semantics::context::Context::")]
    R.ob(rule, "SemanticErrorList::insert is called only by Context methods", bool(callers) and not bad, prog.body(bad[0]).at if bad else "",
         f"{len(callers)} call sites, all in Context" if not bad else f"{[inventory.ishort(k) for k in bad]} insert(s) a diagnostic into a list other than the context's current one: its range refers to a node of another file")
    # and the Context inserts into its own field
    n, okf = 0, True
    for k in callers:
        if k.startswith("oq3_semantics::context::Context::"):
            b = prog.body(k)
            for _, t in b.calls():
                if (b.callee_of(t) or "") == ins:
                    n += 1
                    o = origins(prog, b, t["args"][0], max_depth=4)
                    okf = okf and all(x[0] in ("arg", "field") or (x[0] == "call" and "deref" in (x[1] or "")) for x in o)
    R.ob(rule, "Context inserts into its own semantic_errors list", okf and n >= 4, "", f"{n} insert sites inside Context; receiver originates from self")


def run(prog, R):
    R.explanation = ("ERRNODE: with the token-kind abstract interpreter, every completion of an ERROR node and every consumption of a token whose kind set "
                     "contains ERROR lies on paths that have already reported a syntax error in the same function activation; span provenance: every "
                     "SyntaxError / SemanticError range originates only from token/node boundaries handed out by LexedStr / rowan (no free arithmetic); "
                     "per-file error lists are swapped and restored in pairs.")
    R.not_decided = ["numeric validity start <= end <= len and char-boundary-ness for all inputs (follows informally from C14 + span provenance)"]
    R.assumptions = ["rowan text ranges of nodes/tokens are valid", "the abstract interpreter's hand models (see C01)"]
    G = grammar_run.get(prog)
    # ---- C12.1 ERRNODE
    al = [a for a in G.alarms if a["rule"] == "ERRNODE"]
    seen = set()
    for a in al:
        key = f"{short(a['fn'])}:{a['extra']}"
        if key in seen:
            continue
        seen.add(key)
        R.ob("C12.1-ERRNODE", key, False, where(a), a["what"])
    # every static completion site of an ERROR node
    fns = sorted(set(G.analysed) | set(G.inlined))
    n = 0
    ek = None
    for nme, d in prog.enum_variants(SK):
        if nme == "ERROR":
            ek = d
    for fn in fns:
        b = prog.body(fn)
        for bi, t in b.calls():
            if b.callee_of(t) == PP + "Marker::complete" and len(t["args"]) >= 3:
                o = origins(prog, b, t["args"][2])
                kinds = {x[2] for x in o if x[0] == "agg" and x[1] == SK} | {"#" + str(x[2]) for x in o if x[0] == "const" and norm(x[1]) == SK}
                if "ERROR" in kinds or ("#" + str(ek)) in kinds:
                    n += 1
                    bad = [a for a in al if a["site"] == t["at"] or (a.get("via") and a["via"][0] == t["at"])]
                    R.ob("C12.1-ERRNODE-complete-sites", f"{short(fn)}:{n}", not bad, t["at"], "complete(_, ERROR) is preceded by Parser::error on every abstract path of the activation")
    R.floor("complete(_, ERROR) sites", n, 1)
    R.ob("C12.1-ERRNODE", "token-consumptions", not [a for a in al if a["extra"].startswith("eat:")], "",
         f"{G.facts.get('EOFSAFE', 0)} abstract consumptions checked: a token whose kind set contains ERROR is consumed only after Parser::error in the same activation")
    # the lexer attaches no message to Unknown => ERROR: that is why the parser must (documented fact, checked)
    iet = prog.body("oq3_parser::lexed_str::inner_extend_token")
    if iet:
        from sym import SymExec, deep_strip
        rows = [deep_strip(p.env.get(0)) for p in SymExec(prog, iet, max_paths=5000).paths() if "__diverged__" not in p.env]
        err_rows = [r for r in rows if r[0] == "tuple" and r[1][1] == ("adt", SK + "::ERROR", ())]
        R.ob("C12.1-ERRNODE", "lexer-ERROR-has-no-message", len(err_rows) >= 1, iet.at, f"rows producing ERROR: {len(err_rows)} (message {[r[1][0] for r in err_rows][:2]}) — the parser is the only reporter for unknown characters")

    # ---- C12.2 span provenance of SyntaxError
    ctor = ("oq3_syntax::syntax_error::SyntaxError::new", "oq3_syntax::syntax_error::SyntaxError::new_at_offset", "oq3_syntax::syntax_error::SyntaxError::with_range")
    n = 0
    for k, b in prog.bodies.items():
        for bi, t in b.calls():
            c = b.callee_of(t)
            if c in ctor:
                n += 1
                arg = t["args"][1]
                o = deep_origins(prog, b, arg)
                arith = [x for x in o if x[0] == "binop" or (x[0] == "call" and (x[1] or "").endswith(("::add", "::sub", "::add_assign")))]
                bad = [x for x in o if not span_origin_ok(x) and x not in arith]
                allow_arith = k == "oq3_syntax::validation::validate_literal::{closure#0}"
                ok = not bad and (not arith or allow_arith)
                R.ob("C12.2-span-provenance", f"{inventory.ishort(k)}->{c.split('::')[-1]}", ok, t["at"],
                     f"range/offset originates from {sorted(set((x[1] or '?').split('::')[-1] if x[0]=='call' else x[0] for x in o))}" + (f"; not boundary-valued: {bad[:3]}" if bad else "") + ("; arithmetic on offsets outside the reviewed site" if arith and not allow_arith else ""))
    R.floor("SyntaxError construction sites", n, 3)
    # the one reviewed arithmetic site: validate_literal's push_err computes token_start + (off + prefix_len).  The
    # result is a character boundary of the file only if `off` is a boundary of the unquoted text (the callbacks
    # must hand on `range.start` of the unescape callback untouched) and prefix_len is the length that the same
    # arm stripped with unquote(text, prefix_len, ..)
    vl = prog.body("oq3_syntax::validation::validate_literal")
    if vl:
        from sym import SymExec, deep_strip, show
        dom = vl.dominators()
        unq = {bi: str(t["args"][1].get("int", t["args"][1].get("bits"))) for bi, t in vl.calls() if (vl.callee_of(t) or "").endswith("validate_literal::unquote") and t["args"][1].get("k") == "const"}
        made = {}
        for bi, si, st in vl.stmts_with_pos():
            if st["k"] == "assign" and st["rv"]["k"] == "agg" and st["rv"].get("closure"):
                made[norm(st["rv"]["closure"])] = bi
        ncb = 0
        for k, b in sorted(prog.bodies.items()):
            if not (k.startswith("oq3_syntax::validation::validate_literal::{closure#") and not k.endswith("{closure#0}")):
                continue
            calls = []
            for p in SymExec(prog, b).paths():
                for name, args, bb in p.calls:
                    if name.endswith("validate_literal::{closure#0}"):
                        calls.append(args)
            if not calls:
                continue
            ncb += 1
            okc, det = True, []
            for args in calls:
                tup = deep_strip(args[1]) if len(args) > 1 else None
                if not (isinstance(tup, tuple) and tup[0] == "tuple" and len(tup[1]) == 3):
                    okc = False
                    det.append("argument shape")
                    continue
                pl, off, _ = tup[1]
                off = deep_strip(off)
                start_ok = isinstance(off, tuple) and off[0] == "field" and off[2] == 0 and isinstance(off[1], tuple) and off[1][0] == "arg" and off[1][2] == "range"
                mk = made.get(k)
                doms = [u for u in unq if mk is not None and u in dom[mk]]
                near = max(doms, key=lambda u: len(dom[u])) if doms else None
                pl_ok = pl[0] == "c" and near is not None and str(pl[2]) == unq[near]
                okc = okc and start_ok and pl_ok
                det.append(f"offset {show(off)}; prefix_len {show(pl)} vs unquote(.., {unq.get(near)}, ..)")
            R.ob("C12.2-escape-offset", inventory.ishort(k), okc, b.at, "; ".join(sorted(set(det))))
        R.floor("escape-error callbacks of validate_literal", ncb, 2)
    # SyntaxError fields are private: no other producer
    a = prog.adts.get("oq3_syntax::syntax_error::SyntaxError")
    if a:
        for f in a["variants"][0]["fields"]:
            R.ob("C12.2-span-provenance", "SyntaxError." + f["name"] + "-private", f["vis"] not in ("pub", "crate"), "", f"visibility {f['vis']}")
        for k, b in prog.bodies.items():
            for bi, si, s_ in b.stmts_with_pos():
                if s_["k"] == "assign" and s_["rv"]["k"] == "agg" and norm(s_["rv"].get("adt", "")) == "oq3_syntax::syntax_error::SyntaxError":
                    R.ob("C12.2-span-provenance", "aggregate:" + inventory.ishort(k), k in ctor or k.startswith("<oq3_syntax::syntax_error::SyntaxError as"), s_["at"], "SyntaxError value built here")
    else:
        R.ob("ANCHOR", "SyntaxError", False)
    # a parser error reported "at an offset" carries the empty range at that offset (start == end == offset): every
    # position of the text, including its end, is then a valid range on a character boundary; a non-empty range
    # made from an offset alone can reach past the end of the text or into the middle of a character
    nao = prog.body("oq3_syntax::syntax_error::SyntaxError::new_at_offset")
    if nao is None:
        R.ob("ANCHOR", "oq3_syntax::syntax_error::SyntaxError::new_at_offset", False)
    else:
        rs_ = [deep_strip(p_.env.get(0)) for p_ in SymExec(prog, nao).paths() if "__diverged__" not in p_.env]
        def _empty_at(r_):
            if not (isinstance(r_, tuple) and r_[0] == "adt" and len(r_[2]) >= 2):
                return False
            rg = deep_strip(r_[2][1])
            if isinstance(rg, tuple) and rg[0] == "call" and rg[1].endswith("TextRange::empty") and deep_strip(rg[2][0])[0] == "arg":
                return True
            if isinstance(rg, tuple) and rg[0] == "call" and rg[1].endswith("TextRange::new") and deep_strip(rg[2][0]) == deep_strip(rg[2][1]):
                return True
            return False
        oka = bool(rs_) and all(_empty_at(r_) for r_ in rs_)
        R.ob("C12.2-span-provenance", "new_at_offset: the empty range at the offset", oka, nao.at, f"{[show(r_)[:90] for r_ in rs_][:2]}" if oka else
             f"SyntaxError::new_at_offset builds {[show(r_)[:90] for r_ in rs_][:2]}: not the empty range at the offset; an error at the end of the text (or in front of a multi-byte character) gets a range that leaves the text or splits a character")
    # ... and that is how the tree builder records a parser error: SyntaxTreeBuilder::error(msg, pos) pushes
    # new_at_offset(msg, pos) (a range derived from anything else - a token length taken elsewhere - has to be shown to
    # stay inside the text and on character boundaries)
    ste = prog.body("oq3_syntax::syntax_node::SyntaxTreeBuilder::error")
    if ste is None:
        R.ob("ANCHOR", "oq3_syntax::syntax_node::SyntaxTreeBuilder::error", False)
    else:
        made = set()
        for p_ in SymExec(prog, ste, max_paths=500).paths():
            if "__diverged__" in p_.env:
                continue
            for c_ in p_.calls:
                if "syntax_error::SyntaxError::" in c_[0]:
                    made.add((c_[0].split("::")[-1], tuple(show(deep_strip(a_))[:40] for a_ in c_[1])))
        okb = bool(made) and all(nm == "new_at_offset" and len(as_) == 2 and as_[1] in ("text_pos", "pos", "offset") or (nm == "new_at_offset" and len(as_) == 2 and "arg" not in as_[1] and "(" not in as_[1]) for nm, as_ in made)
        R.ob("C12.2-span-provenance", "SyntaxTreeBuilder::error records new_at_offset(msg, pos)", okb, ste.at, f"{sorted(made)}" if okb else
             f"the tree builder records a parser error as {sorted(made)}: not the empty range at the reported offset")
    R.premises(prog, "C12.3-per-file-premise", ["C18:C18.2-per-file-error-lists"], "a semantic diagnostic's range refers to the file its list is labelled with: each included file gets a list of its own, created with that file's path, swapped in for exactly the analysis of that file (C18.2)")
    R.premises(prog, "C12.2-token-offsets-premise", ["C14:C14.4-", "C14:C14.0-text-identity"], "ranges handed out by LexedStr / the tree are offsets into the given text only if the token table partitions exactly that text (no bytes skipped without a token)")
    # a semantic diagnostic reports the range of the node it was recorded on: SemanticError::range() is node.text_range()
    sr = [k for k in prog.bodies if k.startswith("oq3_semantics::semantic_error::SemanticError::range")]
    if sr:
        from sym import SymExec, deep_strip, show
        b_ = prog.body(sr[0])
        ps_ = [p for p in SymExec(prog, b_).paths() if "__diverged__" not in p.env]
        rets = {show(deep_strip(p.env.get(0))) for p in ps_}
        okr = len(ps_) == 1 and all(r.startswith("text_range(") and "self" in r and "node" not in r.replace("text_range(", "")[:0] for r in rets) and not any(c[0] == "switch" for p in ps_ for c in p.conds)
        R.ob("C12.3-semantic-range-is-node-range", "SemanticError::range() == node.text_range()", okr, b_.at, f"{len(ps_)} path(s); value {sorted(rets)[:2]}")
    else:
        R.ob("ANCHOR", "SemanticError::range", False)
    who_inserts(prog, R, "C12.3-diagnostic-goes-to-the-current-file")
    # the node a diagnostic is recorded on belongs to the file's tree: the analyser and the include handling never
    # build detached copies of syntax nodes (clone_subtree / clone_for_update / a new root), whose ranges start at 0
    DET = ("::clone_subtree", "::clone_for_update", "SyntaxNode::new_root", "::detach", "GreenNode::new", "::splice_children", "::make_mut")
    ndet, ncal = [], 0
    for k_, b_ in prog.bodies.items():
        if not k_.startswith(("oq3_semantics::", "oq3_source_file::")):
            continue
        for _, t_ in b_.calls():
            ncal += 1
            c_ = b_.callee_of(t_) or ""
            if c_.endswith(DET) or any(x in c_ for x in ("AstNode::clone_subtree", "AstNode::clone_for_update")):
                ndet.append((k_.split("::", 1)[1][:60], c_.split("::")[-1], t_.get("at", "")))
    R.ob("C12.3-nodes-stay-attached", "no detached copy of a syntax node is made in the analyser or the include handling", ncal > 800 and not ndet, ndet[0][2] if ndet else "",
         f"{ncal} call sites in oq3_semantics / oq3_source_file; none detaches or rebuilds a syntax node" if not ndet else
         f"{ndet[:2]}: a detached copy has the range 0..len(node), which is not the range of a node of the file's tree (a diagnostic recorded on it points at the beginning of the file)")
    try:
        import c12_sema
        c12_sema.run(prog, R)
    except ImportError:
        R.info["semantic_part"] = "not yet built"
