"""C13 — gate, qubit, const and scope usage rules are diagnosed exactly (decision tables of the diagnostics)."""
from kernel import *
from sym import show, deep_strip
from sema import *
import inventory

TY = "oq3_semantics::types::Type"


def tdisc(prog):
    return {n: d for n, d in prog.enum_variants(TY)}


def discr_conds(p, pred):
    """[(cond)] for conditions of the form discr(t) with pred(t)"""
    return [c for t, c in conds_of(p) if isinstance(t, tuple) and t[0] == "discr" and pred(t[1])]


def is_call(t, suffix):
    return isinstance(t, tuple) and t[0] in ("call", "pure") and t[1].endswith(suffix)


def field_of_call(t, suffix):
    return isinstance(t, tuple) and t[0] == "field" and is_call(t[1], suffix)


def run(prog, R):
    R.explanation = ("For each usage rule the diagnostic is raised iff its condition holds, decided on the full path table of the translator functions (free-term path "
                     "enumeration of MIR): on every path the set of inserted error kinds equals the set demanded by the path's branch conditions on gate type/arity, operand "
                     "type, constness, scope kind; plus the supporting predicate tables (is_const, is_quantum, in_global_scope).")
    R.not_decided = ["the iff over all generated programs end-to-end (interaction with ctrl/negctrl modifiers, values of arities at run time)"]
    R.assumptions = ["rustc MIR; the path enumerator treats callee results as opaque terms"]
    D = tdisc(prog)
    # ---- gate calls
    g = R.anchor(prog, S2S + "gate_call_expr_to_asg_stmt")
    if g:
        ps, tr = paths(prog, g.npath)
        n = 0
        bad = []
        for p in ps:
            if "__diverged__" in p.env:
                continue
            n += 1
            errs = sorted(errors_on(p))
            gate = discr_conds(p, lambda t: field_of_call(t, "SymbolErrorTrait>::as_tuple") or is_call(t, "as_tuple"))
            is_gate = bool(gate) and gate[0] == ("eq", D["Gate"])
            want = []
            if is_gate:
                nes = [(t, truth(c)) for t, c in conds_of(p) if isinstance(t, tuple) and t[0] == "bin" and t[1] == "Ne"]
                # first Ne: def_num_params != num_params ; second: def_num_qubits != num_qubits
                def side(t):
                    s = show(t)
                    return "params" if ("arg_list" in s or ", 0)" in s) and "qubit_list" not in s else "qubits"
                for t, v in nes:
                    a, b = t[2], t[3]
                    which = None
                    if isinstance(a, tuple) and a[0] == "field" and a[2] == 0:
                        which = "NumGateParamsError"
                    elif isinstance(a, tuple) and a[0] == "field" and a[2] == 1:
                        which = "NumGateQubitsError"
                    if which and v and not (which == "NumGateParamsError" and side(b) == "params" and "len" not in show(b) and show(b) != "0"):
                        want.append(which)
                want = sorted(set(want))
                # "iff" needs the decision to be made: a gate-typed path that never compares the definition's
                # arities with the call's cannot report a mismatch
                fields = {t[2][2] for t, v in nes if isinstance(t[2], tuple) and t[2][0] == "field"}
                if not {0, 1} <= fields:
                    bad.append(("gate-typed path does not compare " + "/".join(n_ for i_, n_ in ((0, "parameter count"), (1, "qubit count")) if i_ not in fields) + " with the definition", [show(t)[-50:] + str(c) for t, c in conds_of(p)][-3:]))
            else:
                ok_cond = find_cond(p, lambda t: is_call(t, "::is_ok"))
                if ok_cond and ok_cond[0]:
                    want = ["IncompatibleTypesError"]
            if sorted(set(errs)) != want:
                bad.append((errs, want))
        R.ob("C13-gate-call", "NumGateParamsError/NumGateQubitsError/not-a-gate table", not bad and n >= 15 and not tr, g.at,
             f"{n} paths: errors == {{NumGateParamsError iff Gate.0 != #params, NumGateQubitsError iff Gate.1 != #qubits}} for gates; IncompatibleTypesError iff resolved but not a gate; mismatches {bad[:3]}")
        # provenance of the compared quantities
        ok = True
        det = []
        for p in ps:
            for t, c in conds_of(p):
                if isinstance(t, tuple) and t[0] == "bin" and t[1] == "Ne":
                    a, b = show(t[2]), show(t[3])
                    det.append((a[-30:], b[:60]))
                    if t[2][0] == "field" and t[2][2] == 0:
                        ok = ok and ("arg_list" in b or b == "0")
                    if t[2][0] == "field" and t[2][2] == 1:
                        ok = ok and "qubit_list" in b
        R.ob("C13-gate-call", "compared quantities: (Gate.0, #args) and (Gate.1, #qubit operands)", ok and det, g.at, f"{sorted(set(det))[:4]}")
    # ---- gate operands
    go = R.anchor(prog, S2S + "gate_operand_to_asg_texpr")
    if go:
        ps, _ = paths(prog, go.npath)
        bad = []
        for p in ps:
            if "__diverged__" in p.env:
                continue
            arm = [c for t, c in conds_of(p) if show(t) == "discr(gate_operand)"]
            errs = errors_on(p)
            tyc = discr_conds(p, lambda t: isinstance(t, tuple) and t[0] == "field" and t[2] == 1)
            if not arm:
                bad.append("no arm")
                continue
            a = arm[0][1]
            if a == 2:       # HardwareQubit
                want = []
            elif a == 0:     # Identifier
                want = [] if tyc and tyc[0][0] == "eq" and tyc[0][1] in (D["Qubit"], D["HardwareQubit"], D["QubitArray"]) else ["IncompatibleTypesError"]
                if tyc and tyc[0][0] == "ne" and set(tyc[0][1]) != {D["Qubit"], D["HardwareQubit"], D["QubitArray"]}:
                    bad.append(("identifier arm admits", tyc[0]))
            else:            # IndexedIdentifier
                want = [] if tyc and tyc[0] == ("eq", D["QubitArray"]) else ["IncompatibleTypesError"]
                if tyc and tyc[0][0] == "ne" and set(tyc[0][1]) != {D["QubitArray"]}:
                    bad.append(("indexed arm admits", tyc[0]))
            if errs != want:
                bad.append((a, errs, want))
        vs = [v["name"] for v in prog.adts["oq3_syntax::ast::generated::nodes::GateOperand"]["variants"]]
        R.ob("C13-gate-operand", "operand must be quantum", not bad and vs == ["Identifier", "HardwareQubit", "IndexedIdentifier"][:len(vs)] or (not bad and len(vs) == 3), go.at,
             f"identifier: error iff type not in {{Qubit, HardwareQubit, QubitArray}}; indexed: error iff type != QubitArray; hardware qubit: never; variants {vs}; mismatches {bad[:3]}")
    # ---- expressions: binary on quantum, return in global scope
    ex = R.anchor(prog, S2S + "expr_to_asg_texpr")
    if ex:
        ps, tr = paths(prog, ex.npath)
        bad_b, nb = [], 0
        bad_r, nr = [], 0
        for p in ps:
            if "__diverged__" in p.env:
                continue
            arm = arm_of(prog, p, EXPR_ENUM, "expr") or next((n for n, d in prog.enum_variants(EXPR_ENUM) for t, c in conds_of(p) if show(t).startswith("discr(") and "Try" in show(t) and False), None)
            errs = errors_on(p)
            q = find_cond(p, lambda t: is_call(t, "Type::is_quantum"))
            built_bin = any(c[0].endswith("BinaryExpr::new_texpr_with_cast") or c[0].endswith("BinaryExpr::new") for c in p.calls)
            if arm == "BinExpr" and built_bin and len(q) != 2:
                bad_b.append(("binary expression built without testing is_quantum() of both operand types", len(q)))
            if len(q) == 2:
                nb += 1
                want = ["IncompatibleTypesError"] * sum(1 for x in q if x)
                if errs != want:
                    bad_b.append((q, errs))
            gs = [(t, c) for t, c in conds_of(p) if isinstance(t, tuple) and t[0] in ("pure", "call") and "eq" in t[1] and "current_scope_type" in show(t)]
            if arm == "ReturnExpr" and not gs:
                bad_r.append(("return translated without comparing the current scope type with Global", errs))
            if gs:
                nr += 1
                is_global = truth(gs[0][1]) if "::eq" in gs[0][0][1] else not truth(gs[0][1])
                ok_const = "ScopeType::Global" in show(gs[0][0])
                if (errs == ["ReturnInGlobalScopeError"]) != is_global or not ok_const or (errs and errs != ["ReturnInGlobalScopeError"]):
                    bad_r.append((show(gs[0][0])[:80], gs[0][1], errs))
        R.ob("C13-binary-on-quantum", "IncompatibleTypesError iff an operand type is_quantum()", not bad_b and nb >= 4, ex.at, f"{nb} binary-expression paths; mismatches {bad_b[:2]}")
        R.ob("C13-return-global", "ReturnInGlobalScopeError iff current scope is Global", not bad_r and nr >= 2, ex.at, f"{nr} return paths; mismatches {bad_r[:2]}")
    # ---- subroutine calls
    ce = R.anchor(prog, S2S + "call_expr_to_asg_texpr")
    if ce:
        ps, _ = paths(prog, ce.npath)
        bad, n = [], 0
        for p in ps:
            if "__diverged__" in p.env:
                continue
            n += 1
            errs = errors_on(p)
            ne = [(t, truth(c)) for t, c in conds_of(p) if isinstance(t, tuple) and t[0] == "bin" and t[1] == "Ne"]
            ok = len(ne) == 1 and ((errs == ["NumDefParamsError"]) == ne[0][1]) and errs in ([], ["NumDefParamsError"])
            s = show(ne[0][0]) if ne else ""
            ok = ok and ("arg_list" in s or ", 0)" in s)
            if not ok:
                bad.append((s[:80], errs))
        R.ob("C13-def-call", "NumDefParamsError iff num_params != #args", not bad and n >= 4, ce.at, f"{n} paths; {bad[:2]}")
    # ---- assignment to const
    asg = R.anchor(prog, S2S + "assignment_stmt_to_asg_stmt")
    if asg:
        ps, _ = paths(prog, asg.npath)
        bad, n = [], 0
        for p in ps:
            if "__diverged__" in p.env:
                continue
            ident = [c for t, c in conds_of(p) if show(t).startswith("discr(") and "identifier(assignment_stmt)" in show(t)]
            if not ident or ident[0] != ("eq", 1):
                continue
            n += 1
            errs = errors_on(p)
            okc = find_cond(p, lambda t: is_call(t, "::is_ok"))
            cst = find_cond(p, lambda t: is_call(t, "Type::is_const"))
            mutating = bool(okc) and okc[0] and bool(cst) and cst[0]
            if ("MutateConstError" in errs) != mutating:
                bad.append((okc, cst, errs))
            elif okc and okc[0] and not cst:
                # the target resolved but this path never branches on its const-ness: the diagnostic cannot be
                # "iff const" on it (const targets take this path silently)
                bad.append(("path does not test is_const()", [show(t)[-40:] + str(c) for t, c in conds_of(p)][-3:], errs))
        R.ob("C13-mutate-const", "MutateConstError iff target resolved and const", not bad and n >= 6, asg.at, f"{n} identifier-assignment paths; {bad[:2]}")
    # ---- statement arms: NotInGlobalScopeError, delay
    st = R.anchor(prog, S2S + "stmt_to_asg_stmt")
    if st:
        ps, _ = paths(prog, st.npath)
        seen = {}
        for p in ps:
            if "__diverged__" in p.env:
                continue
            arm = arm_of(prog, p, STMT_ENUM, "stmt")
            errs = errors_on(p)
            if arm in ("QuantumDeclarationStatement", "Gate", "Def"):
                g_ = find_cond(p, lambda t: is_call(t, "SymbolTable::in_global_scope"))
                ok = len(g_) == 1 and (("NotInGlobalScopeError" in errs) == (not g_[0]))
                seen.setdefault(arm, []).append(ok)
            if arm == "DelayStmt":
                d = discr_conds(p, lambda t: is_call(t, "TExpr::get_type") or "get_type" in show(t))
                ok = len(d) >= 1 and ((errs == ["IncompatibleTypesError"]) == (not (d[0] == ("eq", D["Duration"])))) and (d[0][0] == "eq" or set(d[0][1]) == {D["Duration"]})
                seen.setdefault(arm, []).append(ok)
        for arm in ("QuantumDeclarationStatement", "Gate", "Def"):
            R.ob("C13-global-scope-only", arm, arm in seen and all(seen[arm]) and len(seen[arm]) >= 2, st.at, f"NotInGlobalScopeError iff !in_global_scope() on {len(seen.get(arm, []))} paths of the {arm} arm")
        R.ob("C13-delay-duration", "DelayStmt", "DelayStmt" in seen and all(seen["DelayStmt"]) and len(seen["DelayStmt"]) >= 2, st.at, f"IncompatibleTypesError iff the designator's type is not Duration ({len(seen.get('DelayStmt', []))} paths)")
    R.premises(prog, "C13-constness-premise", ["C09:C09.1-constness-provenance"], "`assigning to a const symbol is reported` is decided on the symbol's recorded type: a symbol is recorded const exactly when it was declared const (C09.1); a loop variable or parameter recorded as const draws the diagnostic on a lawful program")
    R.premises(prog, "C13-gate-arity-premise", ["C09:C09.4-stdgates", "C09:C09.4-gate"], "`reported iff the number of parameters or qubits differs from the gate's definition` compares the call with the arity recorded for the gate: the standard-library table and user gate definitions record (parameters, qubits) as defined")
    R.premises(prog, "C13-lookup-premise", ["C07:C07.5-", "C19:C19.3-"], "`calling a name that is not a gate` is decided on the symbol the name resolves to: gate names are looked up like any other name, innermost scope first")
    R.premises(prog, "C13-scope-premise", ["C07:C07.1-", "C07:C07.2-", "C19:C19.2-"],
               "`declared outside the global scope` / `return at global scope` are decided by in_global_scope(): every body (if/else/loop/case/default/gate/def) must be translated inside a freshly entered scope of the right kind")
    # ---- supporting predicate tables
    import C20
    ctors = [v["name"] for v in prog.adts[TY]["variants"]]
    A = {c: C20.abstract_types(prog, c, "1") for c in ctors}
    badq = []
    for c in ctors:
        for l, a in A[c]:
            o = C20.evaluate(prog, C20.T + "Type::is_quantum", (a,))
            v = {x[1] for x in o}
            if v != {("c", "bool", 1 if c in ("Qubit", "QubitArray", "HardwareQubit") else 0)}:
                badq.append(l)
    R.ob("C13-predicates", "is_quantum == {Qubit, QubitArray, HardwareQubit}", not badq, prog.body(C20.T + "Type::is_quantum").at if prog.body(C20.T + "Type::is_quantum") else "", f"{badq}")
    ig = R.anchor(prog, ST + "in_global_scope")
    if ig:
        ps, _ = paths(prog, ig.npath)
        ok = all(("ScopeType::Global" in show(deep_strip(p.env.get(0))) or any("ScopeType::Global" in show(t) for t, c in conds_of(p))) for p in ps if "__diverged__" not in p.env)
        R.ob("C13-predicates", "in_global_scope compares the current scope type with Global", ok, ig.at, "")
