"""C08 — expressions are typed consistently; conversions are explicit or diagnosed (structural clauses)."""
from kernel import *
from sym import SymExec, show, deep_strip, strip_transparent, term_contains, term_contains_all
from sema import *
import inventory

A = "oq3_semantics::asg::"
T = "oq3_semantics::types::"
TYPE_ERRORS = {"IncompatibleTypesError", "CastError", "IncompatibleDimensionError", "NotImplementedError"}


def ret_type(prog, fn):
    """type term(s) of the TExpr built by a to_texpr-like function"""
    b = prog.body(fn)
    if not b:
        return None
    out = []
    for p in SymExec(prog, b, max_visits=1).paths():
        if "__diverged__" in p.env:
            continue
        r = deep_strip(p.env.get(0))
        if r[0] == "call" and r[1].endswith("TExpr::new"):
            out.append(r[2][1])
        else:
            out.append(r)
    return out


def cond_key(p, skip=()):
    """stable, readable key of a path: named predicates with their truth / selected variant"""
    names = (("equal_up_to_dims", "dims"), ("can_cast_literal", "can_cast_literal"), ("equal_up_to_constness(promote", "promoted~target"), ("equal_up_to_constness", "init~target"),
             ("promote_types", "promoted==x"), ("::sign", "sign"), ("sign(", "sign"), ("is_const", "const"), ("is_ok", "resolved"), ("in_global_scope", "global"), ("array_type", "array"),
             ("eq(get_type", "types_equal"), (".0)", "literal_kind"), ("discr(expression", "expr_kind"), ("discr(<std::result", "target_kind"), ("identifier(assignment", "lhs_ident"), ("discr(expr_to_asg", "has_init"))
    out = []
    for t_, c in conds_of(p):
        s = show(t_)
        nm = None
        for pat, n_ in names:
            if pat in s:
                nm = n_
                break
        if nm is None or nm in skip:
            continue
        if s.startswith("discr("):
            out.append(f"{nm}{'=' if c[0] == 'eq' else '!='}{c[1] if c[0] == 'eq' else ','.join(map(str, c[1]))}")
        else:
            out.append(f"{nm}={'T' if truth(c) else 'F'}")
    return "|".join(out)


def is_cast_to(term, target_pred):
    t = deep_strip(term)
    # to_texpr(Cast::new(x, ty))
    while isinstance(t, tuple) and t[0] == "call" and t[1].endswith("Cast::to_texpr"):
        t = t[2][0]
    return isinstance(t, tuple) and t[0] == "call" and t[1].endswith("Cast::new") and target_pred(deep_strip(t[2][1]))


def binary_operand_slots(prog):
    """(number of constructing paths, deviations): on every path of BinaryExpr::new_texpr_with_cast the result is
    to_texpr(BinaryExpr::new(op, L, R), ..) with L built from parameter `left` only and R from `right` only
    (possibly wrapped in Cast::new(.., ty).to_texpr()).  Used by C06 (operand order)."""
    nw = prog.body(A + "BinaryExpr::new_texpr_with_cast")
    if not nw:
        return 0, ["anchor BinaryExpr::new_texpr_with_cast not found"]
    n, bad = 0, []
    for p in SymExec(prog, nw, inline=lambda c: "new_texpr_with_cast::{closure" in c).paths():
        if "__diverged__" in p.env:
            continue
        n += 1
        r = deep_strip(p.env.get(0))
        if not (r[0] == "call" and r[1].endswith("BinaryExpr::to_texpr") and r[2][0][0] == "call" and r[2][0][1].endswith("BinaryExpr::new")):
            bad.append(("shape", show(r)[:60]))
            continue
        be = r[2][0]
        if show(deep_strip(be[2][0])) != "op":
            bad.append(("operator", show(be[2][0])[:40]))
        for side, term, want in (("left", be[2][1], "left"), ("right", be[2][2], "right")):
            core = deep_strip(term)
            while isinstance(core, tuple) and core[0] == "call" and (core[1].endswith("Cast::to_texpr") or core[1].endswith("Cast::new")):
                core = deep_strip(core[2][0])      # the wrapped operand, not the target type
            args_in = {x[2] for x in term_contains_all(core, lambda x: isinstance(x, tuple) and x[0] == "arg") if x[2] in ("left", "right")}
            if args_in != {want}:
                bad.append((side + "-slot-built-from", sorted(args_in)))
    return n, bad


def run(prog, R):
    R.explanation = ("Literal typing table (each literal constructor's type vs its literal class), identities (cast has its target type; identifier pairs symbol and type of one "
                     "lookup; measurement bit shape), arithmetic operands are used unwrapped only when their type equals the promoted type and are otherwise wrapped in a cast to it, "
                     "and a must-pass-through rule on every path of declaration-with-initializer and assignment: equal up to constness, or an explicit cast to exactly the target "
                     "type, or a type diagnostic; plus the full decision tables of both checks: the translator functions evaluated with the type functions inlined over every "
                     "(target type x value type x value form) row of the abstract type domain (constructor x width none/some x const), with the clauses justified / downward-diagnosed / narrowing-diagnosed per row.")
    R.not_decided = ["typing of arbitrary expression forms as initializer (the decision tables abstract the value to literal / non-literal with its type)", "values (negative literal to unsigned beyond the sign flag)", "array types"]
    R.assumptions = ["C20 tables (checked by C20)", "rustc MIR; path enumerator"]
    K_T, K_F = ("adt", T + "IsConst::True", ()), ("adt", T + "IsConst::False", ())
    # ---- C08.1 literal typing
    want = {
        "IntLiteral::to_texpr": ("Int", "integer literal"), "IntLiteral::to_imaginary_texpr": ("Complex", "imaginary integer literal"),
        "FloatLiteral::to_texpr": ("Float", "float literal"), "FloatLiteral::to_imaginary_texpr": ("Complex", "imaginary float literal"),
        "BoolLiteral::to_texpr": ("Bool", "boolean literal"), "BitStringLiteral::to_texpr": ("BitArray", "bit string"),
        "TimingIntLiteral::to_texpr": ("Duration", "duration literal"), "TimingFloatLiteral::to_texpr": ("Duration", "duration literal"),
    }
    for fn, (ctor, what) in want.items():
        ts = ret_type(prog, A + fn)
        if ts is None:
            R.ob("ANCHOR", fn, False)
            continue
        ok = bool(ts) and all(t[0] == "adt" and t[1] == T + "Type::" + ctor and t[2][-1] == K_T for t in ts)
        R.ob("C08.1-literal-type", fn, ok, prog.body(A + fn).at, f"{what}: typed {[show(t) for t in ts]}; expected Type::{ctor}(.., const)")
    ts = ret_type(prog, A + "BitStringLiteral::to_texpr")
    if ts:
        okw = all("count" in show(t) for t in ts)
        R.ob("C08.1-literal-type", "bit-string width = number of bits", okw, prog.body(A + "BitStringLiteral::to_texpr").at, f"{[show(t)[:100] for t in ts]}")
    # ---- C08.2 identities
    ts = ret_type(prog, A + "Cast::to_texpr")
    ok = bool(ts) and all("get_type" in show(t) or deep_strip(t) == ("field", ("arg", 1, "self"), 1) for t in ts)
    R.ob("C08.2-cast-type", "Cast::to_texpr types the expression with its own target type", ok, prog.body(A + "Cast::to_texpr").at if prog.body(A + "Cast::to_texpr") else "", f"{[show(t)[:80] for t in ts or []]}")
    # the translator's CastExpression arm: every path that returns an expression returns
    # Cast::new(<translated operand>, scalar_type_to_type(<the written type>)).to_texpr()
    exb = prog.body(S2S + "expr_to_asg_texpr")
    if exb:
        psx, _ = paths(prog, exb.npath)
        nca, badc = 0, []
        for p in psx:
            if "__diverged__" in p.env or arm_of(prog, p, EXPR_ENUM, "expr") != "CastExpression":
                continue
            r = deep_strip(p.env.get(0))
            if not (r[0] == "adt" and r[1].endswith("Option::Some") and r[2]):
                continue
            nca += 1
            e = deep_strip(r[2][0])
            okc = e[0] == "call" and e[1].endswith("Cast::to_texpr") and deep_strip(e[2][0])[0] == "call" and deep_strip(e[2][0])[1].endswith("Cast::new")
            if okc:
                cn_ = deep_strip(e[2][0])
                opnd, ty = show(cn_[2][0]), show(cn_[2][1])
                okc = "expr_to_asg_texpr" in opnd and "scalar_type_to_type" in ty and "scalar_type(" in ty
            if not okc:
                badc.append(show(e)[:90])
        R.ob("C08.2-cast-type", "translator: a cast expression becomes Cast::new(operand, written type) on every path", nca >= 1 and not badc, exb.at, f"{nca} returning paths of the CastExpression arm; deviating: {badc[:2]}")
    cg = prog.body(A + "Cast::get_type")
    if cg:
        ps = SymExec(prog, cg).paths()
        cf = [f["name"] for f in prog.adts[A + "Cast"]["variants"][0]["fields"]]
        R.ob("C08.2-cast-type", "Cast::get_type returns the typ field", len(ps) == 1 and deep_strip(ps[0].env.get(0)) == ("field", ("arg", 1, "self"), cf.index("typ")), cg.at, "")
    cn = prog.body(A + "Cast::new")
    if cn:
        ps = SymExec(prog, cn).paths()
        R.ob("C08.2-cast-type", "Cast::new(operand, typ) stores both", len(ps) == 1 and ps[0].env.get(0) == ("adt", A + "Cast::Cast", (("arg", 1, "operand"), ("arg", 2, "typ"))), cn.at, "")
    ex = R.anchor(prog, S2S + "expr_to_asg_texpr")
    if ex:
        ps, _ = paths(prog, ex.npath)
        ok, nid = True, 0
        for p in ps:
            if arm_of(prog, p, EXPR_ENUM, "expr") == "Identifier" or any("lookup_identifier" in c[0] for c in p.calls):
                r = deep_strip(p.env.get(0))
                if "__diverged__" in p.env or not (r[0] == "adt" and r[2]):
                    continue
                te = r[2][0]
                if te[0] == "call" and te[1].endswith("TExpr::new"):
                    e, ty = te[2]
                    li = [c for c in p.calls if c[0].endswith("lookup_identifier")]
                    nid += 1
                    ok = ok and len(li) == 1 and "lookup_identifier" in show(e) and "lookup_identifier" in show(ty) and show(e).count("lookup_identifier") == 1
                elif arm_of(prog, p, EXPR_ENUM, "expr") == "Identifier":
                    ok = False
        R.ob("C08.2-identifier-type", "identifier expression = (symbol, type) of one lookup", ok and nid >= 1, ex.at, f"{nid} identifier paths")
    mt = prog.body(A + "MeasureExpression::to_texpr")
    if mt:
        D = {n: d for n, d in prog.enum_variants(T + "Type")}
        rows = {}
        for p in SymExec(prog, mt).paths():
            if "__diverged__" in p.env:
                continue
            r = deep_strip(p.env.get(0))
            sel = [c for t, c in conds_of(p) if isinstance(t, tuple) and t[0] == "discr"]
            ty = r[2][1] if r[0] == "call" and r[1].endswith("TExpr::new") else None
            rows[str(sel[0]) if sel else "?"] = show(ty)[:70]
        ok = rows.get(str(("eq", D["Qubit"])), "").startswith("Type::Bit(IsConst::False") and rows.get(str(("eq", D["HardwareQubit"])), "").startswith("Type::Bit(IsConst::False") \
            and rows.get(str(("eq", D["QubitArray"])), "").startswith("Type::BitArray(") and any(v.startswith("Type::Undefined") for k, v in rows.items() if k.startswith("('ne'"))
        R.ob("C08.2-measure-type", "Qubit|HardwareQubit -> Bit, QubitArray(d) -> BitArray(d), else Undefined", ok, mt.at, f"{rows}")
    # ---- C08.3 common type of an arithmetic expression: implicit_cast_type is promote_types(ty1, ty2) for every
    # arithmetic operator (integer division: Float when neither operand is a float)
    ic = prog.body(A + "implicit_cast_type")
    if ic:
        OPS = {d: n for n, d in prog.enum_variants(A + "ArithOp")}
        FLOAT = dict(prog.enum_variants(T + "Type")).get("Float")
        seen_ops = {}
        badt = []
        for p in SymExec(prog, ic).paths():
            if "__diverged__" in p.env:
                continue
            cs = {show(t): c for t, c in conds_of(p)}
            opc = cs.get("discr(op)")
            opn = OPS.get(opc[1]) if opc and opc[0] == "eq" else ("<other>" if opc else "<all>")
            rv = show(deep_strip(p.env.get(0)))
            seen_ops.setdefault(opn, set()).add(rv)
            if rv == "promote_types(ty1, ty2)":
                continue
            both_nonfloat = cs.get("discr(ty1)") == ("ne", (FLOAT,)) and cs.get("discr(ty2)") == ("ne", (FLOAT,))
            if opn == "Div" and both_nonfloat and rv == "Type::Float(Option::None, IsConst::False)":
                continue
            badt.append((opn, {k: v for k, v in cs.items() if k != "discr(op)"}, rv[:60]))
        missing = sorted(set(OPS.values()) - set(seen_ops)) if "<other>" not in seen_ops and "<all>" not in seen_ops else []
        R.ob("C08.3-common-type", "implicit_cast_type(op, ty1, ty2) = promote_types(ty1, ty2) for every arithmetic operator (int/int division: float)", not badt and not missing and len(seen_ops) >= 1, ic.at,
             f"operators {sorted(seen_ops)}; deviating rows {badt[:3]}; operators without a row {missing}")
    else:
        R.ob("ANCHOR", A + "implicit_cast_type", False, "", "anchor function not found")
    # ---- C08.3 arithmetic operands wrapped
    nw = R.anchor(prog, A + "BinaryExpr::new_texpr_with_cast")
    if nw:
        bad, n = [], 0
        for p in SymExec(prog, nw, inline=lambda c: "new_texpr_with_cast::{closure" in c).paths():
            if "__diverged__" in p.env:
                continue
            r = deep_strip(p.env.get(0))
            arith = [c for t, c in conds_of(p) if show(t) == "discr(op)"]
            eqs = [(t, truth(c)) for t, c in conds_of(p) if isinstance(t, tuple) and t[0] in ("pure", "call") and "eq" in t[1] and "implicit_cast_type" in show(t)]
            ad = dict(prog.enum_variants(A + "BinaryOp") or []).get("ArithOp")
            if ad is None or any(c[0] == "eq" and c[1] != ad for c in arith):
                continue        # path of a non-arithmetic operator
            n += 1
            if len(eqs) != 2:
                bad.append(("an arithmetic path returns without comparing both operand types with the common type", [show(t)[:60] for t, c in conds_of(p)][1:]))
                continue
            # r = to_texpr(BinaryExpr::new(op, L, R), promoted)
            if not (r[0] == "call" and r[1].endswith("BinaryExpr::to_texpr")):
                bad.append("shape")
                continue
            be, ty = r[2]
            L, Rr = be[2][1], be[2][2]
            okt = ty[0] == "call" and ty[1].endswith("implicit_cast_type")
            def eq_for(operand):
                # the comparison `promoted == get_type(<operand>)` of this path
                c = [(t_, s_) for t_, s_ in eqs if any(x[2] == operand for x in term_contains_all(tuple(a for a in t_[2] if not (a[0] == "call" and a[1].endswith("implicit_cast_type"))), lambda x: isinstance(x, tuple) and x[0] == "arg"))]
                return c[0] if len(c) == 1 else (None, None)
            for side, term in (("left", L), ("right", Rr)):
                core = deep_strip(term)
                while isinstance(core, tuple) and core[0] == "call" and (core[1].endswith("Cast::to_texpr") or core[1].endswith("Cast::new")):
                    core = deep_strip(core[2][0])
                if not (isinstance(core, tuple) and core[0] == "arg"):
                    bad.append((side, "operand is not a parameter", show(core)[:40]))
                    continue
                eqt, same = eq_for(core[2])
                if eqt is None:
                    bad.append((side, "no type comparison for operand", core[2]))
                    continue
                wrapped = is_cast_to(term, lambda x: x[0] == "call" and x[1].endswith("implicit_cast_type"))
                raw = deep_strip(term)[0] == "arg"
                if same and not raw or (not same and not wrapped):
                    bad.append((side, same, show(term)[:60]))
            if not okt:
                bad.append(("type", show(ty)[:40]))
        R.ob("C08.3-operands-wrapped", "operand unwrapped iff its type == promoted type, else Cast(operand, promoted); result type = promoted", not bad and n == 4, nw.at, f"{n} arithmetic paths; {bad[:3]}")
    # ---- C08.7 a measurement has the bit shape of its operand: MeasureExpression::to_texpr gives Bit for a single
    # (hardware) qubit, BitArray(dims of the operand) for a qubit register of any length, Undefined otherwise, and the
    # choice depends on the operand's type constructor only (a register of length one is still a register)
    mt = prog.body(A + "MeasureExpression::to_texpr")
    if mt is None:
        R.ob("ANCHOR", A + "MeasureExpression::to_texpr", False)
    else:
        TV = {d: n for n, d in prog.enum_variants(T + "Type")}
        rows_m, odd = set(), []
        for p_ in SymExec(prog, mt, max_paths=500).paths():
            if "__diverged__" in p_.env:
                continue
            cs_ = conds_of(p_)
            tests = [(show(t_), c_) for t_, c_ in cs_]
            r_ = deep_strip(p_.env.get(0))
            ty_ = show(deep_strip(r_[2][1]))[:70] if isinstance(r_, tuple) and r_[0] == "call" and len(r_[2]) > 1 else show(r_)[:70]
            if len(tests) != 1 or not tests[0][0].startswith("discr(get_type("):
                odd.append((tests, ty_))
                continue
            c_ = tests[0][1]
            who = TV.get(c_[1], c_[1]) if c_[0] == "eq" else "other"
            rows_m.add((who, ty_.split("(")[0], "get_type(self.0).0" in ty_))
        want_m = {("Qubit", "Type::Bit", False), ("HardwareQubit", "Type::Bit", False), ("QubitArray", "Type::BitArray", True), ("other", "Type::Undefined", False)}
        R.ob("C08.7-measure-shape", "Bit for a qubit, BitArray(operand dims) for a register, Undefined otherwise", rows_m == want_m and not odd, mt.at,
             f"{sorted(rows_m)}" if rows_m == want_m and not odd else f"rows {sorted(rows_m)}; paths with other tests {odd[:2]}: the bit shape of a measurement does not follow the operand's shape alone (`qubit[1] q; bit c = measure q;` must be diagnosed like any register-to-bit assignment)")
    R.premises(prog, "C08.4-premise", ["C20:C20."],
               "the common type of an arithmetic expression is promote_types(..) and the justification rule accepts `equal_up_to_constness(target, value)` and `can_cast_literal` as written: their decision tables must be the ones C20 checks")
    R.premises(prog, "C08.1-literal-class-premise", ["C10:C10.4-"], "a literal has the type of its literal class: which constructor (plain / imaginary / timing) the translator uses for each literal form is C10.4's table")
    R.premises(prog, "C08.2-identifier-premise", ["C07:C07.3-", "C07:C07.5-"], "an identifier has the type of its symbol: the initializer is typed before the declared name is bound, and one lookup yields symbol and type")
    import c08_table
    c08_table.check(prog, R)
    c08_table.check_assign(prog, R)
    # ---- C08.4 justification on all paths
    cd = R.anchor(prog, S2S + "classical_declaration_statement_to_asg_stmt")
    if cd:
        ps, _ = paths(prog, cd.npath)
        n = 0
        for i, p in enumerate(ps):
            if "__diverged__" in p.env:
                continue
            r = deep_strip(p.env.get(0))
            # find the initializer handed to the declaration
            init = None
            t = r
            if t[0] == "call" and t[1].endswith("declare_classical_helper"):
                init = t[2][1]
            elif t[0] == "call" and t[1].endswith("to_stmt") and t[2][0][0] == "call" and t[2][0][1].endswith("DeclareClassical::new"):
                init = t[2][0][2][1]
            if init is None or not (init[0] == "adt" and init[1].endswith("Option::Some")):
                continue
            n += 1
            x = init[2][0]
            errs = set(errors_on(p))
            eq0 = [truth(c) for t_, c in conds_of(p) if isinstance(t_, tuple) and t_[0] == "call" and t_[1].endswith("equal_up_to_constness") and "promote" not in show(t_)]
            equal = bool(eq0) and eq0[0]
            cast = is_cast_to(x, lambda ty: "scalar_type_to_type" in show(ty) or ty == ("adt", T + "Type::ToDo", ()))
            just = "equal" if equal else ("cast" if cast else ("diagnostic" if errs & TYPE_ERRORS else None))
            conds = [(show(t_)[:50], c) for t_, c in conds_of(p)][-4:]
            key = cond_key(p, skip=("global", "has_init"))
            R.ob("C08.4-declaration-justified", key or f"path{i}", just is not None, cd.at,
                 f"declaration with initializer: {'justified by ' + just if just else 'the initializer is stored with a different type, without a cast and without a type diagnostic'}; path conditions {conds}")
        R.floor("declaration-with-initializer paths", n, 10)
    asg = R.anchor(prog, S2S + "assignment_stmt_to_asg_stmt")
    if asg:
        ps, _ = paths(prog, asg.npath)
        n = 0
        for i, p in enumerate(ps):
            if "__diverged__" in p.env:
                continue
            ident = [c for t, c in conds_of(p) if show(t).startswith("discr(") and "identifier(assignment_stmt)" in show(t)]
            if not ident or ident[0] != ("eq", 1):
                continue
            okc = find_cond(p, lambda t: isinstance(t, tuple) and t[0] in ("call", "pure") and t[1].endswith("::is_ok"))
            ne = [truth(c) for t, c in conds_of(p) if isinstance(t, tuple) and t[0] in ("call", "pure") and t[1].endswith("::ne") and "get_type" in show(t) or (isinstance(t, tuple) and t[0] == "pure" and t[1].endswith("eq") and "get_type" in show(t) and "as_tuple" in show(t))]
            if not (okc and okc[0]):
                continue   # unresolved target: already reported
            n += 1
            r = deep_strip(p.env.get(0))
            a = r[2][0] if r[0] == "adt" and r[2] else r
            # Assignment::new(lvalue, expr)
            ex_t = None
            tt = a
            while isinstance(tt, tuple) and tt[0] == "call" and tt[1].endswith("to_stmt"):
                tt = tt[2][0]
            if isinstance(tt, tuple) and tt[0] == "call" and tt[1].endswith("Assignment::new"):
                ex_t = tt[2][1]
            errs = set(errors_on(p))
            same = [truth(c) for t, c in conds_of(p) if isinstance(t, tuple) and t[0] == "pure" and t[1].endswith("eq") and "get_type" in show(t) and "promote" not in show(t)]
            types_equal = bool(same) and same[0]
            cast = ex_t is not None and is_cast_to(ex_t, lambda ty: True)
            just = "equal types" if types_equal else ("cast" if cast else ("diagnostic" if errs & TYPE_ERRORS else None))
            key = cond_key(p, skip=("const", "lhs_ident", "resolved"))
            R.ob("C08.4-assignment-justified", key or f"path{i}", just is not None, asg.at,
                 f"assignment to a resolved variable: {'justified by ' + just if just else 'the value is stored with a different type, without a cast and without a type diagnostic'}")
        R.floor("assignment paths", n, 6)
