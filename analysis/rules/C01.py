"""C01 — lexing and parsing return normally on every input (no panic, no hang).

Part G (grammar): obligations PROGRESS, PRE, TS128, EOFSAFE, MARKER and the
panic-site inventory over the cone of grammar::entry::top::source_file, decided
by the token-kind abstract interpreter (grammar_ai.py) for all token-kind
sequences.  Part L (lexer / glue): see c01_lexer.py.
"""
import json
from collections import defaultdict
from kernel import *
import grammar_run
from gram import *

PP = "oq3_parser::parser::"


def sccs_of(graph):
    import sys
    sys.setrecursionlimit(10000)
    index, low, st, on, out, c = {}, {}, [], set(), [], [0]

    def go(v):
        index[v] = low[v] = c[0]
        c[0] += 1
        st.append(v)
        on.add(v)
        for w in graph.get(v, ()):
            if w not in index:
                go(w)
                low[v] = min(low[v], low[w])
            elif w in on:
                low[v] = min(low[v], index[w])
        if low[v] == index[v]:
            comp = []
            while True:
                w = st.pop()
                on.discard(w)
                comp.append(w)
                if w == v:
                    break
            if len(comp) > 1 or v in graph.get(v, ()):
                out.append(sorted(comp))
    for v in list(graph):
        if v not in index:
            go(v)
    return out


def grammar_part(prog, R):
    G = grammar_run.get(prog)
    R.info["grammar_ai"] = {"contexts": G.contexts, "functions_analysed": len(G.analysed), "functions_inlined": len(G.inlined), "stats": G.stats,
                            "cache_hit": G.cache_hit, "alphabet_size": bin(G.alphabet).count("1")}
    reviewed = reviewed_table()
    fns = sorted(set(G.analysed) | set(G.inlined))
    R.floor("grammar functions analysed (cone of source_file)", len(fns), 100)
    for must in ("oq3_parser::grammar::items::item", "oq3_parser::grammar::expressions::expr_bp", "oq3_parser::grammar::params::_param_list_openqasm",
                 "oq3_parser::grammar::expressions::stmt", PP + "Parser::do_bump", PP + "Parser::err_recover", "oq3_parser::grammar::delimited"):
        R.ob("ANCHOR", must, must in fns, "", "function must be in the analysed cone")
    # fail closed on engine trouble
    for a in G.alarms:
        if a["rule"] in ("AI-MODEL", "AI-BUDGET"):
            R.ob("C01.0-engine", f"{short(a['fn'])}:{a['rule']}", False, where(a), "the abstract interpreter could not model this construct: " + a["what"])
    if G.widened:
        R.info["contexts_over_cap"] = G.widened

    # ---- C01.2 PROGRESS: loops
    prog_al = alarm_groups(G, "PROGRESS")
    nloops = 0
    import grammar_ai
    for fn in fns:
        b = prog.body(fn)
        heads = sorted(h for h, _ in b.natural_loops())
        for i, h in enumerate(heads):
            nloops += 1
            key = (fn, f"loop{i}")
            al = prog_al.get(key)
            if al:
                R.ob("C01.2-PROGRESS", f"{short(fn)}:loop{i}", False, where(al[0]),
                     f"{al[0]['what']}; contexts: {sorted(set(short(x['ctx']) + str(x['ctxwin'][:1]) for x in al))[:4]}")
            else:
                R.ob("C01.2-PROGRESS", f"{short(fn)}:loop{i}", True, b.blocks[h].term["at"], "every abstract path around this loop consumes at least one token (or the back edge is unreachable)")
    R.floor("grammar loops checked", nloops, 8)
    # ---- call-graph cycles must contain a consuming edge
    graph = defaultdict(set)
    for (a, b_), consumed in G.edges.items():
        if not consumed:
            graph[a].add(b_)
    cyc = sccs_of(graph)
    for comp in cyc:
        fns_ = sorted(set(G.node_fn[x] for x in comp))
        R.ob("C01.2-PROGRESS-recursion", "+".join(short(x).split("::")[-1] for x in fns_), False, prog.body(fns_[0]).at,
             f"recursion cycle (context-sensitive call graph) without a guaranteed consumption on any of its call edges: {[(short(G.node_fn[x]), G.node_ctx[x]) for x in comp][:6]}")
    # ---- C01.6 narrowing integer casts in the parser crate: indices, distances and counts are stored in narrower fields
    # (u32 positions, u8/u16 packed fields); a value cut by `as` silently points elsewhere (a forward-parent distance
    # stored in 16 bits makes event::process follow a wrong link on a large block).  The (from -> to) pairs in use
    # are reviewed; a pair that is not among them needs a review.
    W_ = {"u8": 8, "u16": 16, "u32": 32, "u64": 64, "usize": 64, "u128": 128, "i8": 8, "i16": 16, "i32": 32, "i64": 64, "isize": 64, "bool": 1, "char": 32}
    REVIEWED_NARROWING = {("lexed_str", "usize", "u32"): "text offsets and token indices: bounded by the input size (< 2^32, the stated bound)",
                          ("output", "usize", "u32"): "index into the error list", ("parser", "usize", "u32"): "event index (one event per token or node: bounded by the input size)",
                          ("output", "u32", "u16"): "Output::iter decodes a 16-bit field it encoded itself (mask before the cast)",
                          ("output", "u32", "u8"): "Output::iter decodes an 8-bit field it encoded itself (mask before the cast)"}
    ncast = 0
    for k_, b_ in sorted(prog.bodies.items()):
        if not k_.startswith("oq3_parser::"):
            continue
        for bi_, si_, st_ in b_.stmts_with_pos():
            if st_["k"] == "assign" and st_["rv"]["k"] == "cast" and st_["rv"].get("kind") == "IntToInt":
                fr_, to_ = str(st_["rv"].get("from", "?")), str(st_["rv"]["to"])
                if fr_ in W_ and to_ in W_ and W_[to_] < W_[fr_]:
                    ncast += 1
                    why_ = REVIEWED_NARROWING.get((k_.split("::")[1], fr_, to_))
                    R.ob("C01.6-narrowing-casts", f"{short(k_)}:{fr_}->{to_}", why_ is not None, st_["at"], f"reviewed: {why_}" if why_ else
                         f"{short(k_)} narrows a {fr_} to {to_} with `as`: no cast of this kind was reviewed in this module of the parser crate; a distance or index that does not fit wraps silently (large inputs)")
    R.floor("narrowing casts in the parser crate", ncast, 4)
    # ---- C01.2 the "parser seems stuck" counter measures look-aheads since the last consumption: every consumption
    # (Parser::do_bump, the only writer of pos) resets it, so that the limit bounds the work between two tokens and
    # not the length of the input (the reviewed reason of the assertion in Parser::nth rests on this)
    dbb = prog.body(PP + "Parser::do_bump")
    if dbb is None:
        R.ob("ANCHOR", PP + "Parser::do_bump", False)
    else:
        from sym import SymExec as _SE, deep_strip as _ds
        steps_idx = [f["name"] for f in prog.adts[PP + "Parser"]["variants"][0]["fields"]].index("steps") if "steps" in [f["name"] for f in prog.adts[PP + "Parser"]["variants"][0]["fields"]] else None
        oks = steps_idx is not None
        if oks:
            nres = 0
            for p_ in _SE(prog, dbb).paths():
                if "__diverged__" in p_.env:
                    continue
                sets = [c for c in p_.calls if c[0].endswith("Cell::set") and _ds(c[1][0]) == ("field", ("arg", 1, "self"), steps_idx) and _ds(c[1][1]) == ("c", "u32", 0)]
                nres += 1
                oks = oks and len(sets) >= 1
            oks = oks and nres >= 1
        R.ob("C01.2-step-counter-reset", "do_bump resets Parser.steps", oks, dbb.at, "every path of do_bump sets self.steps to 0" if oks else
             "Parser::do_bump no longer resets the look-ahead counter on every path: the counter accumulates over the whole input and a long (valid) program trips the `parser seems stuck` assertion")
    # ---- C01.2 work per token / event / diagnostic is constant: in the cone of the text entry points no call scans a
    # growing collection (membership test, search, removal or insertion in the middle, sort, fold over a collection):
    # done once per event such a scan makes the parse quadratic in the number of tokens or diagnostics.  The three
    # existing uses are reviewed; any other needs a review.
    LINEAR = ("::contains", "::retain", "::remove", "::insert", "::dedup", "::dedup_by", "::dedup_by_key", "::sort", "::sort_by", "::sort_unstable", "::binary_search",
              "Iterator::any", "Iterator::find", "Iterator::position", "Iterator::all", "Iterator::count", "Iterator::last", "Iterator::nth", "Iterator::max", "Iterator::min",
              "Iterator::sum", "Iterator::find_map", "Iterator::fold", "Iterator::rposition", "::drain")
    REVIEWED_SCANS = {
        ("oq3_parser::event::process", "std::vec::Vec::drain"): "once per parse: the event list is drained in one pass",
        ("oq3_parser::shortcuts::n_attached_trivias", "core::str::contains"): "on the text of one comment token",
        ("oq3_parser::shortcuts::Builder::enter", "std::iter::Iterator::count"): "over the run of trivia tokens directly before the node",
    }
    pcone = prog.cone(["oq3_syntax::parsing::parse_text", "oq3_syntax::parsing::parse_text_check_lex"])
    R.floor("functions in the cone of the text entry points", len(pcone), 150)
    nscan = 0
    for f_ in sorted(pcone):
        fb_ = prog.body(f_)
        for bi_, t_ in fb_.calls():
            cal_ = fb_.callee_of(t_) or ""
            if cal_.startswith("oq3_") or cal_.startswith("<oq3_") or not cal_.endswith(LINEAR):
                continue
            if cal_.endswith(("HashMap::insert", "HashMap::remove", "HashSet::insert", "HashSet::remove", "HashSet::contains", "HashMap::contains_key", "BTreeMap::insert")) or "hash::" in cal_ or "btree" in cal_:
                continue
            nscan += 1
            why_ = REVIEWED_SCANS.get((f_, cal_))
            R.ob("C01.2-constant-work-per-event", f"{short(f_)}->{cal_.split('::')[-2]}::{cal_.split('::')[-1]}", why_ is not None, t_["at"],
                 f"reviewed: {why_}" if why_ else f"{short(f_)} scans a collection with {cal_.split('::')[-1]} on the path from the text entry points: if this runs per token, event or diagnostic over a list that grows with the input the work is quadratic (review and list it if the collection is bounded)")
    R.floor("collection scans in the parse cone", nscan, 2)
    R.ob("C01.2-PROGRESS-recursion", "all-cycles-consume", not cyc, "", f"{len(G.edges)} call edges; the sub-graph of edges not preceded by a consumption on every path is acyclic")

    # ---- C01.3 PRE + C01.6 inventory
    reach = alarm_groups(G, "PANIC-REACH")
    site_al = alarm_groups(G, "PANIC-SITE")
    sites = panic_sites(prog, fns)
    n_pre = 0
    keys = [(fn, descr) for fn, bb, kind, descr, at in sites]
    ords = ordinals(keys)
    reached_at = defaultdict(list)
    for a in G.alarms:
        if a["rule"] in ("PANIC-REACH", "PANIC-SITE"):
            reached_at[(a["fn"], a["site"])].append(a)
    for (fn, bb, kind, descr, at), o in zip(sites, ords):
        k = f"{short(fn)}|{descr}|{o}"
        al = reached_at.get((fn, at))
        n_pre += 1
        rule = "C01.3-PRE" if kind == "panic-call" else "C01.6-arith"
        if not al:
            R.ob(rule, k, True, at, "unreachable in every context: the abstract state at this site implies the asserted condition")
        elif f"{rule}:{k}" in reviewed:
            R.reviewed(rule, k, at, reviewed[f"{rule}:{k}"]["reason"])
        else:
            ctxs = sorted(set((short(x["ctx"]), (x["via"] or ("", "", ""))[0]) for x in al))[:4]
            R.ob(rule, k, False, where(al[0]), f"panic site reachable: {al[0]['what']}; reached in contexts {ctxs}")
    R.floor("panic-capable sites in the grammar cone", n_pre, 30)

    # ---- C01.4 TS128
    hi = G.alphabet >> 128
    names_hi = [G.kname[i + 128] for i in grammar_ai.bits(hi)]
    ts = [a for a in G.alarms if a["rule"] == "TS128"]
    R.ob("C01.4-alphabet<128", "token alphabet", not (names_hi and ts), "",
         f"token kinds the lexer can hand to the parser: {bin(G.alphabet).count('1')}; kinds >= 128: {names_hi}; TokenSet::contains sites that can see them: {len(set(x['site'] + str(x['via']) for x in ts))}")
    for nm in names_hi:
        if ts:
            sample = sorted(set(where(x) for x in ts))[:3]
            R.ob("C01.4-TS128", nm, False, sample[0], f"`1u128 << {nm} ({G.kdisc[nm]})` overflows in TokenSet::contains / mask: {len(ts)} abstract call sites, e.g. {sample}")
    R.ob("C01.4-TS128", "contains-sites", True, "", f"{G.facts.get('TS128', 0)} TokenSet::contains evaluations had a kind set within [0,128)")

    # ---- EOFSAFE
    eo = alarm_groups(G, "EOFSAFE")
    for (fn, extra), al in eo.items():
        R.ob("C01.3-EOFSAFE", short(al[0]["ctx"]) + ":" + (al[0]["via"] or ("", "?", ""))[1].split("::")[-1], False, where(al[0]), al[0]["what"])
    R.ob("C01.3-EOFSAFE", "all-consumptions", not eo, "", f"{G.facts.get('EOFSAFE', 0)} abstract consumptions (`pos += n`) exclude EOF from the first n lookahead entries")

    # ---- C01.5 MARKER
    for rule in ("MARKER-LIFO", "MARKER-LINEAR"):
        g = alarm_groups(G, rule)
        for (fn, extra), al in sorted(g.items()):
            sites_ = sorted(set(x["site"] for x in al))
            for i, s_ in enumerate(sites_):
                a0 = [x for x in al if x["site"] == s_][0]
                R.ob("C01.5-" + rule, f"{short(fn)}:{extra}:{i}", False, where(a0), a0["what"])
    R.ob("C01.5-MARKER-LIFO", "closes-checked", True, "", f"{G.facts.get('MARKER-LIFO', 0)} complete/abandon/extend_to evaluations closed the innermost open marker")
    return G



def is_joint_guard(prog, R, rule="C01.6-is_joint-guarded"):
    """`Input::is_joint(n)` indexes the jointness bit vector without a bounds check: it is in range only for
    n < number of tokens.  Rule: every call `is_joint(inp, A)` is control-dependent (on all paths) on
    `inp.kind(A) == K` being true for a kind K that is never EOF (kind() answers EOF beyond the end), K being a
    constant or a parameter for which every caller passes a non-EOF constant."""
    from sym import SymExec, show, deep_strip, must_conds
    n = 0
    for b in prog.by_crate["oq3_parser"]:
        cs = [(bi, t) for bi, t in b.calls() if (b.callee_of(t) or "").endswith("Input::is_joint")]
        if not cs:
            continue
        ps = SymExec(prog, b).paths()
        for o, (bi, t) in enumerate(cs):
            n += 1
            key = f"{short(b.npath)}:{o}"
            argterm = None
            for p in ps:
                for name, args, bb in p.calls:
                    if bb == bi and name.endswith("Input::is_joint"):
                        argterm = deep_strip(args[1])
            mc = must_conds(ps, bi)
            if argterm is None or mc is None:
                R.ob(rule, key, False, t["at"], "call not reached by the path enumeration")
                continue
            guards = []
            for term, c in mc:
                if not (isinstance(term, tuple) and term[0] in ("call", "pure") and term[1].endswith("SyntaxKind as std::cmp::PartialEq>::eq")):
                    continue
                if not (c == ("ne", (0,)) or c == ("eq", 1)):
                    continue
                a0, a1 = term[2]
                for x, k in ((a0, a1), (a1, a0)):
                    if isinstance(x, tuple) and x[0] == "call" and x[1].endswith("Input::kind") and deep_strip(x[2][1]) == argterm:
                        guards.append(k)
            if not guards:
                R.ob(rule, key, False, t["at"], f"is_joint({show(argterm)}) is not guarded by a successful `kind({show(argterm)}) == K` on every path: for the position one past the last token the bit vector has no word when the token count is a multiple of 64 (index out of bounds)")
                continue
            okk, why = False, ""
            for k in guards:
                k = deep_strip(k)
                if isinstance(k, tuple) and k[0] == "arg":
                    # every caller passes a constant kind other than EOF
                    vals = set()
                    for cb in prog.by_crate["oq3_parser"]:
                        for _, ct in cb.calls():
                            if norm(cb.callee_of(ct) or "") == b.npath:
                                for og in origins(prog, cb, ct["args"][k[1] - 1], max_depth=3):
                                    vals.add(og[2] if og[0] == "agg" and og[1].endswith("SyntaxKind") else "?" + str(og)[:30])
                    if vals and "EOF" not in vals and not any(v.startswith("?") for v in vals):
                        okk, why = True, f"K = parameter `{k[2]}`, callers pass {len(vals)} constant kinds, none EOF"
                    else:
                        why = f"K = parameter `{k[2]}` but callers pass {sorted(vals)[:4]}"
                elif isinstance(k, tuple) and k[0] in ("adt", "c", "agg") and "EOF" not in show(k):
                    okk, why = True, f"K = {show(k)}"
            R.ob(rule, key, okk, t["at"], why)
    R.floor("is_joint call sites", n, 3)


def lookahead_relative(prog, R, rule):
    """Position independence of the parser's lookahead: every index handed to Input::kind / Input::is_joint by a
    Parser method is `self.pos + k` (never an absolute index or one that ignores pos).  A statement then parses
    the same wherever it stands in the token stream."""
    from sym import SymExec, show, deep_strip, term_contains
    a = prog.adts.get(PP + "Parser")
    pos_idx = [i for i, f in enumerate(a["variants"][0]["fields"]) if f["name"] == "pos"][0] if a else None
    n, bad = 0, []
    for b in prog.by_crate["oq3_parser"]:
        if not b.npath.startswith(PP + "Parser::"):
            continue
        sites = [bi for bi, t in b.calls() if (b.callee_of(t) or "").endswith(("Input::kind", "Input::is_joint"))]
        if not sites:
            continue
        seen = {}
        for p in SymExec(prog, b, max_paths=3000).paths():
            for nm, args, bb in p.calls:
                if nm.endswith(("Input::kind", "Input::is_joint")) and len(args) > 1:
                    seen.setdefault(bb, set()).add(deep_strip(args[1]))
        for bb in sites:
            for t_ in seen.get(bb, {None}):
                n += 1
                rel = t_ is not None and term_contains(t_, lambda x: isinstance(x, tuple) and x[0] == "field" and x[2] == pos_idx and isinstance(x[1], tuple) and x[1][0] == "arg" and x[1][2] == "self")
                if not rel:
                    bad.append((short(b.npath), b.blocks[bb].term["at"], show(t_)[:60] if t_ is not None else "unreached"))
    R.ob(rule, "every lookahead index is relative to Parser.pos", not bad and n >= 5 and pos_idx is not None, bad[0][1] if bad else "",
         f"{n} lookahead index terms in Parser methods, all of the form pos + k" if not bad else f"lookahead at an index that does not depend on the current position: {bad[:3]}: the same tokens parse differently depending on where they stand in the input")


def composite_jointness(prog, R, rule):
    """A composite token of K raw tokens is recognised iff the K kinds match and the first K-1 raw tokens are each
    joint to their successor: on the accepting path of at_compositeK, kind() is asked at offsets 0..K-1 and
    is_joint() at exactly the offsets 0..K-2 (relative to pos + n)."""
    from sym import SymExec, show, deep_strip

    def offset(t):
        t = deep_strip(t)
        # ((self.pos + n) + c) -> c ; (self.pos + n) -> 0
        if isinstance(t, tuple) and t[0] == "field" and isinstance(t[1], tuple) and t[1][0] == "bin" and t[1][1] == "AddWithOverflow":
            a, b_ = t[1][2], t[1][3]
            if isinstance(b_, tuple) and b_[0] == "c":
                inner = offset(a)
                return None if inner is None else inner + b_[2]
            if isinstance(b_, tuple) and b_[0] == "arg":
                return 0
        return None
    n = 0
    for K, name in ((2, "at_composite2"), (3, "at_composite3")):
        b = prog.body(PP + "Parser::" + name)
        if not b:
            R.ob("ANCHOR", name, False)
            continue
        best = None
        for p in SymExec(prog, b).paths():
            if "__diverged__" in p.env:
                continue
            r = deep_strip(p.env.get(0))
            if r == ("c", "bool", 0):
                continue
            best = p if best is None or len(p.calls) > len(best.calls) else best
        if best is None:
            R.ob(rule, name, False, b.at, "no accepting path found")
            continue
        n += 1
        ko = sorted(offset(a[1]) if offset(a[1]) is not None else -1 for nm, a, bb in best.calls if nm.endswith("Input::kind"))
        jo = sorted(offset(a[1]) if offset(a[1]) is not None else -1 for nm, a, bb in best.calls if nm.endswith("Input::is_joint"))
        ok = ko == list(range(K)) and jo == list(range(K - 1))
        R.ob(rule, name, ok, b.at, f"kinds at offsets {ko}, jointness at offsets {jo}" if ok else
             f"accepting path asks kinds at offsets {ko} and jointness at offsets {jo}; a {K}-token composite needs jointness of offsets {list(range(K - 1))}: otherwise operator characters separated by trivia are glued, or a composite followed by trivia is not recognised")
    R.floor("composite lookahead functions", n, 2)


def structural_part(prog, R):
    """Rules of the grammar cone that do not need the abstract interpreter (CFG / path rules); they are evaluated
    even when the interpreter does not converge."""
    # linearity by drop elaboration: non-cleanup Drop of a Marker-typed place only inside the three consuming operations
    allowed = {PP + "Marker::complete", PP + "Marker::abandon", PP + "CompletedMarker::extend_to"}
    nd = 0
    for b in prog.by_crate["oq3_parser"]:
        for bl in b.blocks:
            if bl.cleanup or bl.term["k"] != "drop":
                continue
            ty = bl.term["ty"]
            if "parser::Marker" in ty and "CompletedMarker" not in ty.replace("parser::Marker", ""):
                nd += 1
                ok = b.npath in allowed
                if ok:
                    # must be after the bomb is defused
                    dom = b.dominators()
                    defuse = [bi for bi, t in b.calls() if (b.callee_of(t) or "").endswith("DropBomb::defuse")]
                    ok = bool(defuse) and all(d in dom[bl.idx] for d in defuse[:1])
                R.ob("C01.5-MARKER-linear-drops", f"{short(b.npath)}", ok, bl.term["at"],
                     "rustc's drop elaboration leaves a non-cleanup drop of a Marker here: a marker can go out of scope without complete/abandon (DropBomb panics)" if not ok else "drop of the consumed marker after DropBomb::defuse")
    R.floor("Marker drops (the three consuming operations)", nd, 3)
    # conformance of the five modelled marker operations
    conf = {PP + "Marker::complete": ["DropBomb::defuse", "Parser::push_event", "CompletedMarker::new"], PP + "Marker::abandon": ["DropBomb::defuse"],
            PP + "CompletedMarker::precede": ["Parser::start"], PP + "CompletedMarker::extend_to": ["DropBomb::defuse"], PP + "Parser::start": ["Parser::push_event", "Marker::new"]}
    for fn, must in conf.items():
        b = R.anchor(prog, fn)
        if not b:
            continue
        cals = [b.callee_of(t) or "" for _, t in b.calls()]
        missing = [m for m in must if not any(c.endswith(m) for c in cals)]
        extra = [c for c in cals if c.startswith("oq3_parser") and not any(c.endswith(m) for m in must) and not c.endswith(("Event::tombstone",))]
        R.ob("C01.5-marker-model-conformance", short(fn), not missing and not extra, b.at, f"modelled operation body calls {sorted(set(c.split('::')[-1] for c in cals))}; missing {missing}; unexpected {extra}")
    # Input::kind / is_joint / TokenSet::contains model conformance (shape of the bodies)
    tsc = prog.body("oq3_parser::token_set::TokenSet::contains")
    if tsc:
        from sym import SymExec, show
        ps = SymExec(prog, tsc, inline=lambda c: c.startswith("oq3_parser::token_set::")).paths()
        shapes = sorted(set(show(p.env.get(0)) for p in ps if "__diverged__" not in p.env))
        conds = sorted(set(show(c[1]) for p in ps for c in p.conds if c[0] == "switch"))
        unguarded = ["Ne(BitAnd(self.0, Shl(1, (discr(kind) as usize))), 0)"]
        ok = shapes == unguarded and not conds
        guarded = all("Lt(" in c and "128" in c for c in conds) and conds and all(s in ("0", "false", unguarded[0]) for s in shapes)
        R.ob("C01.4-contains-model-conformance", "TokenSet::contains", ok or guarded, tsc.at, f"body shape {shapes} under {conds}; modelled as bit test of the const set" + (" guarded by kind < 128" if guarded else ""))
        R.info["contains_guarded"] = bool(guarded)
    else:
        R.ob("ANCHOR", "TokenSet::contains", False)
    is_joint_guard(prog, R)
    composite_jointness(prog, R, "C01.6-composite-jointness")
    lookahead_relative(prog, R, "C01.6-lookahead-relative")


def timing_unit_part(prog, R):
    """validate_timing_literal (run on every tree, with or without diagnostics) unwraps the text of the unit of each
    TIMING_LITERAL: `identifier().unwrap().text()`.  text() takes the first token of the IDENTIFIER node, so that node
    must hold a token: in every grammar function that completes a TIMING_LITERAL, each path that does so has looked at
    the token after the number and found IDENT, bumps exactly the number, and then calls identifier() (which bumps an
    IDENT it is at).  This is the mechanical form of the reviewed reason of the text_of_first_token unwrap."""
    from sym import SymExec, show, deep_strip
    SK = {n: d for n, d in prog.enum_variants("oq3_parser::syntax_kind::syntax_kind_enum::SyntaxKind")}
    ident, tl = SK.get("IDENT"), "SyntaxKind::TIMING_LITERAL"
    vt = prog.body("oq3_syntax::validation::validate_timing_literal")
    unwraps = vt is not None and any((vt.callee_of(t) or "").endswith(("Option::unwrap", "Option::expect", "Option<T>::unwrap", "Option<T>::expect")) for _, t in vt.calls())
    if vt is None:
        R.ob("ANCHOR", "oq3_syntax::validation::validate_timing_literal", False)
        return
    if not unwraps:
        R.ob("C01.6-timing-unit-present", "validate_timing_literal does not unwrap the unit", True, vt.at, "no unwrap/expect in validate_timing_literal")
        return
    nfn, npth, bad = 0, 0, []
    for k, b in sorted(prog.bodies.items()):
        if not k.startswith("oq3_parser::grammar::") or "{closure" in k:
            continue
        if "TIMING_LITERAL" not in json.dumps(b.j["blocks"]) or not any((b.callee_of(t) or "").endswith("Marker::complete") for _, t in b.calls()):
            continue
        nfn += 1
        se = SymExec(prog, b, max_visits=1)
        for q in se.paths():
            comp = [i for i, c in enumerate(q.calls) if c[0].endswith("Marker::complete") and any(tl in show(deep_strip(a)) for a in c[1])]
            if not comp:
                continue
            npth += 1
            pre = q.calls[:comp[0]]
            idc = [i for i, c in enumerate(pre) if c[0].endswith("::identifier")]
            bumps = [i for i, c in enumerate(pre) if c[0].endswith(("Parser::bump_any", "Parser::bump", "Parser::do_bump", "Parser::eat", "Parser::expect"))]
            peeked = False
            for c in q.conds:
                if c[0] != "switch":
                    continue
                t_ = show(deep_strip(c[1]))
                if t_ == "discr(nth(p, 1))" and c[2] == ("eq", ident):
                    peeked = True
                if t_ in ("nth_at(p, 1, SyntaxKind::IDENT)", "Eq(discr(nth(p, 1)), %s)" % ident) and c[2][0] == "ne":
                    peeked = True
            ok = peeked and len(idc) == 1 and len([i for i in bumps if i < idc[0]]) == 1 and not [i for i in bumps if i > idc[0]]
            if not ok or se.truncated:
                bad.append((k.split("::")[-1], peeked, len(idc), len(bumps)))
    R.ob("C01.6-timing-unit-present", "every TIMING_LITERAL is completed after nth(1) == IDENT, one bump (the number) and identifier()", nfn >= 1 and npth >= 2 and not bad, vt.at,
         f"{nfn} grammar function(s), {npth} completing paths: each tested nth(1) == IDENT, bumped the number and called identifier()" if not bad else
         f"(function, saw nth(1)==IDENT, identifier() calls, bumps) {sorted(set(bad))[:3]}: a TIMING_LITERAL can be completed whose IDENTIFIER child holds no token (identifier() records an error and completes an empty node when it is not at an IDENT); validate_timing_literal then unwraps None in text_of_first_token")


def run(prog, R):
    R.explanation = ("Token-kind abstract interpretation of the whole grammar (every Parser method and grammar function analysed from MIR, over all "
                     "token-kind sequences): PROGRESS (every loop iteration / recursion cycle consumes a token => termination and O(tokens) work), "
                     "PRE (every assert!/bump precondition implied by the abstract state), TS128, EOFSAFE, MARKER linear+LIFO use, and a classified "
                     "inventory of every panic-capable instruction in the cone. Lexer/glue part: structural progress and panic inventory.")
    R.not_decided = ["native stack depth for deeply nested input", "behaviour of rowan / unicode-xid / unicode-properties / smol_str", "memory growth other than event-list growth bounded by consumed tokens"]
    R.assumptions = ["input size < 2^31 bytes", "rustc MIR (dev profile, opt-level 0) faithfully represents the source incl. debug assertions and overflow checks",
                     "hand models: Input::kind/is_joint, write to Parser.pos, push_event, TokenSet::contains (conformance-linted), five marker operations (conformance-linted)"]
    try:
        grammar_part(prog, R)
    except grammar_run.AIUnavailable as e:
        ai_unavailable(R, e)
    structural_part(prog, R)
    timing_unit_part(prog, R)
    try:
        import c01_lexer
        c01_lexer.run(prog, R)
    except ImportError:
        R.info["lexer_part"] = "not yet built"
