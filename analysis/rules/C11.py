"""C11 — malformed lexemes are always diagnosed and errors gate the later stages (structural clauses)."""
from kernel import *
from sym import SymExec, show, deep_strip, strip_transparent
from sema import paths, conds_of, truth, find_cond, calls_named, errors_on
import inventory

LS = "oq3_parser::lexed_str::"
LK = "oq3_lexer::LiteralKind"
TK = "oq3_lexer::TokenKind"
# a flag value that marks the lexeme as malformed
BAD_FLAG = {"terminated": False, "empty_int": True, "empty_exponent": True, "major": False, "minor": False}


def flag_rows(prog, fn, enum):
    """[(variant, {flag: bool}, message, kind)] for every path of a kind->(message, SyntaxKind, len) table"""
    b = prog.body(fn)
    a = prog.adts[enum]
    rows = []
    for p in SymExec(prog, b, max_paths=5000).paths():
        if "__diverged__" in p.env or "__cut__" in p.env:
            continue
        variant = None
        flags = {}
        for t, c in conds_of(p):
            if isinstance(t, tuple) and t[0] == "discr" and c[0] == "eq" and variant is None and isinstance(t[1], tuple) and t[1][0] == "arg":
                for v in a["variants"]:
                    if int(v["discr"]) == c[1]:
                        variant = v
            elif isinstance(t, tuple) and t[0] == "field" and variant is not None and isinstance(t[1], tuple) and t[1][0] == "arg":
                idx = t[2]
                if idx < len(variant["fields"]):
                    flags[variant["fields"][idx]["name"]] = truth(c)
        r = deep_strip(p.env.get(0))
        rows.append((variant["name"] if variant else None, flags, r))
    return rows


def run(prog, R):
    R.explanation = ("Flag -> message table of the token conversion (every path of inner_extend_token / extend_literal_func on which a malformedness flag of the lexer token is set "
                     "returns a non-empty lexical message); the lexer sets those flags from its scanners' results; gating: parse_text_check_lex returns no tree exactly under "
                     "!errors_is_empty(), analyze_source returns the fresh context exactly under have_syntax_errors() (which recurses into included files) and never reaches the "
                     "translator on that branch; the include pre-pass, which runs before the gate on trees that may contain syntax errors, contains no unwrap of a tree accessor.")
    R.not_decided = ["that the diagnostic is located on the lexeme for arbitrary surrounding context (partly C12)", "that every malformed lexeme of the language sets one of the flags (maximal-munch behaviour of the scanner)"]
    R.assumptions = ["rustc MIR; path enumerator"]
    # ---- C11.1 flag -> message
    for fn, enum in ((LS + "extend_literal_func", LK), (LS + "inner_extend_token", TK)):
        b = R.anchor(prog, fn)
        if not b:
            continue
        rows = flag_rows(prog, fn, enum)
        R.floor(f"rows of {fn.split('::')[-1]}", len(rows), 10)
        for variant, flags, r in rows:
            if variant is None or r[0] != "tuple":
                continue
            msg = r[1][0]
            bad = sorted(f for f, v in flags.items() if f in BAD_FLAG and BAD_FLAG[f] == v)
            if not bad and variant != "InvalidIdent":
                continue
            nonempty = msg[0] == "c" and isinstance(msg[2], str) and msg[2] != ""
            fl = ",".join(f"{k}={str(v).lower()}" for k, v in sorted(flags.items()))
            R.ob("C11.1-flag-has-message", f"{variant}{{{fl}}}", nonempty, b.at, f"token {variant} with {flags} (malformed: {bad or 'InvalidIdent'}) gets the lexical message {show(msg)!r}")
    # ---- C11.2 the lexer sets the flags
    num = R.anchor(prog, "oq3_lexer::Cursor::number")
    if num:
        bad, n = [], 0
        for p in SymExec(prog, num, max_paths=5000).paths():
            if "__diverged__" in p.env:
                continue
            r = deep_strip(p.env.get(0))
            if r[0] != "adt":
                continue
            n += 1
            digit_calls = [(t, truth(c)) for t, c in conds_of(p) if isinstance(t, tuple) and t[0] == "call" and t[1].endswith(("eat_decimal_digits", "eat_hexadecimal_digits", "eat_float_exponent"))]
            if r[1].endswith("LiteralKind::Int"):
                empty = r[2][1]
                want_empty = any(not v for t, v in digit_calls if not t[1].endswith("eat_float_exponent"))
                if empty != ("c", "bool", 1 if want_empty else 0):
                    bad.append(("Int", show(empty), digit_calls and [(x[0][1].split("::")[-1], x[1]) for x in digit_calls]))
            else:
                ee = r[2][1]
                fe = [t for t, v in digit_calls if t[1].endswith("eat_float_exponent")]
                if fe:
                    ok = ee == ("un", "Not", fe[-1]) or (ee[0] == "c")
                    # `empty_exponent = !self.eat_float_exponent()`
                    if not (isinstance(ee, tuple) and (ee[0] == "un" or ee[0] == "c")):
                        bad.append(("Float", show(ee)))
        R.ob("C11.2-flags-set-by-scanner", "number(): empty_int iff the digit scanner after a radix prefix found no digit", not bad and n >= 10, num.at, f"{n} literal-returning paths; {bad[:3]}")
    # ... and eat_float_exponent reports whether a *digit* followed the marker (and optional sign): its result on every
    # returning path is the result of the digit scanner, not "something was consumed" (a lone sign, `1e+`, is no exponent)
    fe_ = R.anchor(prog, "oq3_lexer::Cursor::eat_float_exponent")
    if fe_:
        rets_ = sorted({show(deep_strip(p.env.get(0))) for p in SymExec(prog, fe_, max_visits=1).paths() if "__diverged__" not in p.env})
        okfe = bool(rets_) and all(r_.startswith(("eat_decimal_digits(", "eat_hexadecimal_digits(")) and r_.count("(") == r_.count("self") for r_ in rets_)
        R.ob("C11.2-flags-set-by-scanner", "eat_float_exponent(): true iff the digit scanner met a digit after the marker and sign", okfe, fe_.at,
             f"returns {rets_}" if okfe else f"returns {[r_[:120] for r_ in rets_]}: the result is not the digit scanner's, so an exponent marker followed by a sign and no digit (`1e+`, `.5e-`) clears empty_exponent and gets no lexical diagnostic")
    import scanners
    scanners.check(prog, R, "C11.2-digit-scanners")
    scanners.exponent_markers(prog, R, "C11.2-exponent-markers")
    # the two string scanners behave identically up to their quote character (decision table of one iteration)
    scanners.string_scanners_agree(prog, R, "C11.2-string-scanners-agree")
    scanners.string_flags_check(prog, R, "C11.2-string-flags")
    at = R.anchor(prog, "oq3_lexer::Cursor::advance_token")
    if at:
        ps, tr = paths(prog, at.npath, 50000)
        bad, n = [], 0
        for p in ps:
            if "__diverged__" in p.env:
                continue
            r = p.env.get(0)
            if not (r[0] == "call" and r[1].endswith("Token::new")):
                continue
            k = deep_strip(r[2][0])
            if k[0] == "adt" and k[1].endswith("TokenKind::Literal"):
                lit = k[2][0]
                if lit[0] == "call":      # number()/float_with_no_leading_digit(): flags forwarded unchanged
                    n += 1
                    if not lit[1].endswith(("Cursor::number", "Cursor::float_with_no_leading_digit")):
                        bad.append(show(lit)[:60])
                elif lit[0] == "adt":     # Str / BitStr built from the string scanner's tuple
                    n += 1
                    term = lit[2][0]
                    if not (term[0] == "field" and term[2] == 0 and term[1][0] == "call" and term[1][1].endswith(("double_quoted_string", "single_quoted_string"))):
                        bad.append(show(lit)[:80])
                    if lit[1].endswith("BitStr"):
                        cu = lit[2][1]
                        if not (cu[0] == "field" and cu[2] == 2 and cu[1] == term[1]):
                            bad.append("consecutive_underscores: " + show(cu)[:60])
            elif k[0] == "adt" and k[1].endswith("OpenQasmVersionStmt"):
                n += 1
                if not all(f[0] == "field" and f[1][0] == "call" and f[1][1].endswith("openqasm_version") for f in k[2]) or [f[2] for f in k[2]] != [0, 1]:
                    bad.append(show(k)[:80])
            elif k[0] == "call" and k[1].endswith("block_comment"):
                n += 1
        R.ob("C11.2-flags-set-by-scanner", "advance_token forwards scanner results into the token flags unchanged", not bad and n >= 8, at.at, f"{n} flag-carrying token paths; {bad[:3]}")
    # version header: (major, minor) = (true, true) only when the character after the number is `;` or whitespace,
    # with or without a minor version (else `3.0.1` / `3.0x` would be accepted)
    ovb = R.anchor(prog, "oq3_lexer::Cursor::openqasm_version")
    if ovb:
        ntt, badv = 0, []
        for p in SymExec(prog, ovb).paths():
            if "__diverged__" in p.env:
                continue
            r = deep_strip(p.env.get(0))
            if show(r) != "(true, true)":
                continue
            ntt += 1
            cs = [(show(t), c) for t, c in conds_of(p)]
            term_ok = any((s_.startswith("Ne(first(") and "59" in s_ and c == ("eq", 0)) or (s_.startswith("Eq(first(") and "59" in s_ and truth(c)) or (s_.startswith("is_whitespace(first(") and truth(c)) for s_, c in cs)
            if not term_ok:
                badv.append(cs[-2:])
        R.ob("C11.2-version-terminator", "openqasm_version reports a complete version only before `;` or whitespace", ntt >= 2 and not badv, ovb.at, f"{ntt} (true, true) paths; without a terminator test: {badv[:2]}")
    import scanners as _sc
    _sc.pound_arm_check(prog, R, "C11.1-pound-words")
    R.premises(prog, "C11.1-location-premise", ["C12:C12.2-span-provenance"], "a lexical diagnostic is located on the malformed lexeme: the range built from the token table entry (C12.2)")
    R.premises(prog, "C11.4-include-premise", ["C18:C18.2-lock-step"], "the syntax errors of an included file gate the analysis only if that file is read and parsed: the pre-pass skips exactly `stdgates.inc`, with the predicate the analyser uses (C18.2)")
    R.premises(prog, "C11.2-block-comment-premise", ["C15:C15.4-"], "`terminated = (depth == 0)` flags an unterminated comment only if depth counts openers and closers correctly (both characters of each marker consumed)")
    bc = R.anchor(prog, "oq3_lexer::Cursor::block_comment")
    if bc:
        ok = False
        for p in SymExec(prog, bc, max_visits=1).paths():
            r = deep_strip(p.env.get(0)) if "__diverged__" not in p.env else None
            if r and r[0] == "adt" and r[1].endswith("BlockComment"):
                f = r[2][0]
                ok = ok or (f[0] == "bin" and f[1] == "Eq" and f[3] == ("c", "usize", 0)) or f[0] == "c"
        R.ob("C11.2-flags-set-by-scanner", "block_comment: terminated = (depth == 0)", ok, bc.at, "")
    # ---- C11.3 gating
    pt = R.anchor(prog, "oq3_syntax::parsing::parse_text_check_lex")
    if pt:
        ps, _ = paths(prog, pt.npath)
        bad = []
        for p in ps:
            if "__diverged__" in p.env:
                continue
            r = deep_strip(p.env.get(0))
            gate = find_cond(p, lambda t: isinstance(t, tuple) and t[0] == "call" and t[1].endswith("LexedStr::errors_is_empty"))
            none_tree = r[0] == "tuple" and show(r[1][0]).startswith("Option::None")
            parsed = bool(calls_named(p, "TopEntryPoint::parse"))
            ok = len(gate) == 1 and (none_tree == (not gate[0])) and (parsed == gate[0])
            if none_tree:
                ok = ok and r[1][1][0] == "call" and r[1][1][1].endswith("lexer_errors_to_syntax_errors")
            if not ok:
                bad.append((gate, show(r)[:80]))
        R.ob("C11.3-gating", "parse_text_check_lex: no tree iff lexical errors; parser runs iff none", not bad and len(ps) >= 2, pt.at, f"{bad[:2]}")
    pc = R.anchor(prog, "oq3_syntax::SourceFile::parse_check_lex")
    if pc:
        ps, _ = paths(prog, pc.npath)
        bad = []
        for p in ps:
            if "__diverged__" in p.env:
                continue
            val = bool(calls_named(p, "validation::validate"))
            some = [c for t, c in conds_of(p) if isinstance(t, tuple) and t[0] == "discr"]
            if val != (bool(some) and some[0] == ("eq", 1)):
                bad.append((val, some))
        R.ob("C11.3-gating", "parse_check_lex validates only an existing tree", not bad, pc.at, f"{bad[:2]}")
    an = None
    for k in prog.bodies:
        if k.startswith("oq3_semantics::syntax_to_semantics::analyze_source"):
            an = prog.body(k)
            break
    if an:
        ps, _ = paths(prog, an.npath)
        bad = []
        n = 0
        for p in ps:
            if "__diverged__" in p.env:
                continue
            n += 1
            g = find_cond(p, lambda t: isinstance(t, tuple) and t[0] == "call" and t[1].endswith("have_syntax_errors"))
            ran = bool(calls_named(p, "syntax_to_semantic"))
            r = deep_strip(p.env.get(0))
            ok = len(g) == 1 and (ran == (not g[0]))
            if g and g[0]:
                # the returned context is the fresh Context::new(...) and the flag is true
                ok = ok and r[0] == "adt" and any(isinstance(f, tuple) and f[0] == "call" and f[1].endswith("Context::new") for f in r[2]) and ("c", "bool", 1) in r[2]
            if not ok:
                bad.append((g, ran, show(r)[:80]))
        R.ob("C11.3-gating", "analyze_source: translator runs iff !have_syntax_errors(); otherwise fresh context", not bad and n >= 2, an.at, f"{n} paths; {bad[:2]}")
    else:
        R.ob("ANCHOR", "analyze_source", False)
    # an included file keeps its parse result (tree or lexer errors): parse_one_included hands the first component of
    # parse_source_and_includes on unchanged, so that have_syntax_errors() sees the diagnostics of every file
    po = [k for k in prog.bodies if k.startswith("oq3_source_file::source_file::parse_included_files::parse_one_included")]
    if po:
        pb = prog.body(po[0])
        okk, det = True, []
        for p in SymExec(prog, pb).paths():
            if "__diverged__" in p.env:
                continue
            for nm, args, bb in p.calls:
                if nm.endswith("SourceFile::new") and any(c[0].endswith("parse_source_and_includes") for c in p.calls):
                    a1 = deep_strip(args[1])
                    good = isinstance(a1, tuple) and a1[0] == "field" and a1[2] == 0 and isinstance(a1[1], tuple) and a1[1][0] == "call" and a1[1][1].endswith("parse_source_and_includes")
                    okk = okk and good
                    det.append(show(a1)[:70])
        R.ob("C11.3-gating", "an included file keeps its parse result unchanged", okk and bool(det), pb.at, f"SourceFile::new(path, {sorted(set(det))}, ..)")
    hs = prog.body("oq3_source_file::source_file::SourceTrait::have_syntax_errors")
    if hs:
        cone = prog.cone([hs.npath])
        ext = set()
        for f in cone:
            ext |= prog.ext_calls().get(f, set())
        rec = any(c.endswith("have_syntax_errors") for f in cone for c in list(prog.callgraph().get(f, ())) + list(prog.ext_calls().get(f, ())))
        incl = any("included" in c for f in cone for c in list(prog.callgraph().get(f, ())) + list(prog.ext_calls().get(f, ()))) or any("included" in (prog.body(f).callee_of(t) or "") for f in cone for _, t in prog.body(f).calls())
        R.ob("C11.3-gating", "have_syntax_errors recurses into included files", rec and incl, hs.at, f"calls included(): {incl}; recursive have_syntax_errors: {rec}")
        # a source without a syntax tree (an included file that could not be read) has no syntax error of its own:
        # evaluate the body with syntax_ast() = None and no erroneous inclusion; the result must be the constant false
        def model(se, st, t, cal, args, site):
            a0 = deep_strip(args[0]) if args else None
            none = isinstance(a0, tuple) and a0[0] == "adt" and a0[1].endswith("Option::None")
            if cal.endswith("::syntax_ast"):
                return ("adt", "std::option::Option::None", ())
            if cal.endswith("::any"):
                return ("c", "bool", 0)
            if none and cal.endswith(("::is_some_and", "::is_some")):
                return ("c", "bool", 0)
            if none and cal.endswith(("::is_none_or", "::is_none")):
                return ("c", "bool", 1)
            if none and cal.endswith("::map_or"):
                return args[1]
            if none and cal.endswith(("::map", "::and_then", "::filter")):
                return ("adt", "std::option::Option::None", ())
            if none and cal.endswith("::unwrap_or"):
                return args[1]
            return None
        vals = {show(deep_strip(p.env.get(0))) for p in SymExec(prog, hs, call_model=model).paths() if "__diverged__" not in p.env}
        R.ob("C11.3-gating", "a source without a syntax tree has no syntax error of its own", vals == {"false"}, hs.at,
             f"have_syntax_errors() with syntax_ast() == None and no erroneous inclusion evaluates to {sorted(vals)} (an unreadable include must lead to the FileNotFound diagnostic of the analyser, not to the syntax-error gate)")
    else:
        R.ob("ANCHOR", "SourceTrait::have_syntax_errors", False)
    # ---- C11.4 the include pre-pass runs on trees with syntax errors: no tree-accessor unwrap there
    pre = [k for k in prog.bodies if k.startswith("oq3_source_file::source_file::parse_included_files") or k.startswith("oq3_source_file::source_file::parse_source_and_includes")]
    n = 0
    for s_ in inventory.sites_in(prog, pre):
        n += 1
        R.ob("C11.4-pre-gate-no-unwrap", s_["key"], False, s_["at"], f"{s_['descr']}: this code runs whenever a tree exists, also when it has syntax errors (before the gate); a tree accessor may legitimately be None here (e.g. `include;`)")
    R.ob("C11.4-pre-gate-no-unwrap", "include pre-pass", True, "", f"{len(pre)} functions of the include pre-pass inspected; {n} panic-capable sites")
    R.floor("include pre-pass functions", len(pre), 3)
