"""C15 — well-formed lexemes are classified correctly (table agreement clauses)."""
import json, os
from kernel import *
from sym import SymExec, show, deep_strip
from sema import paths, conds_of, truth
from tables import string_table
from gram import VERIF
import C11

SK = "oq3_parser::syntax_kind::syntax_kind_enum::SyntaxKind"
LS = "oq3_parser::lexed_str::"


def kn(t):
    if isinstance(t, tuple) and t[0] == "adt" and t[1].startswith(SK + "::"):
        return t[1].rsplit("::", 1)[1]
    if isinstance(t, tuple) and t[0] == "adt" and t[1].endswith("Option::Some") and t[2]:
        return kn(t[2][0])
    return None


def trivia_resets_joint(prog, R, ti, rule):
    """Must-assign rule on the CFG of to_input: from the successor taken when `kind.is_trivia()` is true, every path
    back to the next `is_trivia` test passes through `was_joint = false` (so any trivia token, of whatever kind,
    separates the parts of a composite operator), and from the non-trivia successor every such path passes through
    `was_joint = true` or the float rule's assignment."""
    wj = [i for i, l in enumerate(ti.locals) if l.get("name") == "was_joint"]
    tests = [bi for bi, t in ti.calls() if (ti.callee_of(t) or "").endswith("SyntaxKind::is_trivia")]
    if len(wj) != 1 or len(tests) != 1:
        R.ob(rule, "trivia resets the joint flag", False, ti.at, f"anchor shape changed: locals named was_joint {wj}, is_trivia tests {tests}")
        return
    wj, test = wj[0], tests[0]
    # the switch on the result of is_trivia
    tgt = ti.blocks[test].term["target"]
    sw = ti.blocks[tgt]
    if sw.term["k"] != "switch":
        R.ob(rule, "trivia resets the joint flag", False, ti.at, "is_trivia result is not branched on directly")
        return
    cases = {str(v): b_ for v, b_ in sw.term["cases"]}
    false_succ = cases.get("0")
    true_succ = sw.term["otherwise"] if false_succ is not None else None
    assigns = {}     # block -> list of constants assigned to was_joint
    for bi, si, st in ti.stmts_with_pos():
        if st["k"] == "assign" and st["lhs"]["l"] == wj and not st["lhs"]["p"]:
            rv = st["rv"]
            v = rv["op"].get("int", rv["op"].get("bits")) if rv["k"] == "use" and rv["op"].get("k") == "const" else "?"
            assigns.setdefault(bi, []).append(str(v))
    succ = ti.succ()

    def reaches_without(start, kill):
        seen, stack = set(), [start]
        while stack:
            x = stack.pop()
            if x in seen or x in kill or ti.blocks[x].cleanup:
                continue
            seen.add(x)
            if x == test:
                return True
            stack.extend(succ[x])
        return False
    kill_false = {bi for bi, vs in assigns.items() if vs[-1] == "0"}
    ok = true_succ is not None and not reaches_without(true_succ, kill_false)
    R.ob(rule, "every trivia token resets the joint flag", ok, sw.term["at"], f"was_joint = false in blocks {sorted(kill_false)}; trivia successor bb{true_succ}" if ok else
         f"a path from the trivia branch (bb{true_succ}) reaches the next token without `was_joint = false`: a trivia token (e.g. a comment) between two operator characters would not separate them, and the composite token would swallow the trivia")


def run(prog, R):
    R.explanation = ("Agreement of the sibling classification tables: for every single-character token the lexer arm composed with the token conversion equals "
                     "SyntaxKind::from_char and the punctuation spelling table; keyword and type-name tables follow the naming convention, are disjoint and cover every *_KW / *_TY kind; "
                     "the two numeric-literal arms of the lexer follow the same suffix protocol; is_trivia is exactly {WHITESPACE, COMMENT} and jointness is reset by trivia.")
    R.not_decided = ["maximal-munch behaviour of the scanner on arbitrary neighbour sequences", "invariance of non-trivia tokens under trivia changes for all inputs"]
    R.assumptions = ["spec/punct.json", "rustc MIR; path enumerator"]
    spell = json.load(open(os.path.join(VERIF, "spec", "punct.json")))["spelling"]
    # ---- TokenKind -> SyntaxKind rows (fieldless variants)
    rows = C11.flag_rows(prog, LS + "inner_extend_token", C11.TK)
    tk2sk = {}
    for variant, flags, r in rows:
        if variant and r[0] == "tuple":
            tk2sk.setdefault(variant, set()).add(kn(r[1][1]))
    # ---- lexer arms: char -> TokenKind
    at = R.anchor(prog, "oq3_lexer::Cursor::advance_token")
    char2tk = {}
    if at:
        ps, tr = paths(prog, at.npath, 50000)
        for p in ps:
            if "__diverged__" in p.env:
                continue
            r = p.env.get(0)
            if not (r[0] == "call" and r[1].endswith("Token::new")):
                continue
            k = deep_strip(r[2][0])
            if k[0] == "adt" and not k[2]:
                chars = [c[1] for t, c in conds_of(p) if c[0] == "eq" and isinstance(t, tuple) and t[0] == "field" and isinstance(t[1], tuple) and t[1][0] == "call" and t[1][1].endswith("Cursor::bump") and t[1][3] == ((0, 0),)]
                if len(chars) == 1:
                    # only arms that consume nothing else
                    if len([c for c in p.calls if c[0].endswith("Cursor::bump")]) == 1:
                        char2tk.setdefault(chr(chars[0]), set()).add(k[1].rsplit("::", 1)[1])
    fc, _ = string_table(prog, SK + "::from_char")
    # from_char matches on char, not str: extract by switch on the char argument
    fcb = R.anchor(prog, SK + "::from_char")
    fchar = {}
    if fcb:
        for p in SymExec(prog, fcb, max_paths=500).paths():
            if "__diverged__" in p.env:
                continue
            cs = [c[1] for t, c in conds_of(p) if c[0] == "eq" and t == ("arg", 1, "c")]
            r = deep_strip(p.env.get(0))
            if cs and kn(r):
                fchar[chr(cs[-1])] = kn(r)
    R.floor("from_char rows", len(fchar), 28)
    R.floor("single-character lexer arms", len(char2tk), 24)
    for ch, want in sorted(fchar.items()):
        R.ob("C15.1-from_char-spelling", want, spell.get(want) == ch, fcb.at, f"from_char({ch!r}) = {want}; spelling table says {spell.get(want)!r}")
        if ch in "/.#$@_":
            tks = char2tk.get(ch, set())
            sks = set()
            for tk in tks:
                sks |= tk2sk.get(tk, {None})
            ok = (want in sks) or ch in "#_$"
            R.ob("C15.1-lexer-arm", ch, ok, at.at if at else "", f"{ch!r} has a multi-way lexer arm (comment / float / pragma,dim / hardware ident / annotation / identifier start); single-character outcome {sorted(tks)} -> {sorted(str(s) for s in sks)}; from_char says {want} ('#', '$' alone and '_' are never plain punctuation tokens)")
        elif ch in char2tk:
            tks = char2tk[ch]
            sks = set()
            for tk in tks:
                sks |= tk2sk.get(tk, {None})
            R.ob("C15.1-lexer-arm", ch, sks == {want}, at.at, f"{ch!r}: lexer arm {sorted(tks)} -> conversion {sorted(str(s) for s in sks)}; from_char says {want}")
        else:
            # characters with multi-way arms ('/', '.', '#', '$', '@', '_'): the default outcome of the arm must still be this kind where one exists
            R.ob("C15.1-lexer-arm", ch, ch in "/.#$@_", at.at if at else "", f"{ch!r} has a multi-way lexer arm (comment / float / pragma / hardware ident / annotation / identifier start); documented exception")
    # ---- keywords / type names
    kw, _ = string_table(prog, SK + "::from_keyword")
    ty, _ = string_table(prog, SK + "::from_scalar_type")
    if kw is None or ty is None:
        R.ob("ANCHOR", "from_keyword/from_scalar_type", False)
        return
    R.floor("keyword rows", len(kw), 45)
    R.floor("type-name rows", len(ty), 9)
    for s_, r in sorted(kw.items()):
        k = kn(r)
        want = "O_P_E_N_Q_A_S_M_KW" if s_ == "OPENQASM" else s_.upper() + "_KW"
        R.ob("C15.2-keyword-naming", s_, k == want, prog.body(SK + "::from_keyword").at, f"{s_!r} => {k} (convention {want})")
    for s_, r in sorted(ty.items()):
        k = kn(r)
        R.ob("C15.2-type-naming", s_, k == s_.upper() + "_TY", prog.body(SK + "::from_scalar_type").at, f"{s_!r} => {k}")
    R.ob("C15.2-disjoint", "keyword and type-name tables", not (set(kw) & set(ty)), "", f"common spellings {sorted(set(kw) & set(ty))}")
    allk = [n for n, d in prog.enum_variants(SK)]
    for n in allk:
        if n.endswith("_KW"):
            R.ob("C15.2-every-keyword-kind-has-a-spelling", n, n in {kn(r) for r in kw.values()}, "", f"{n} is produced by from_keyword")
        if n.endswith("_TY"):
            R.ob("C15.2-every-keyword-kind-has-a-spelling", n, n in {kn(r) for r in ty.values()}, "", f"{n} is produced by from_scalar_type")
    # `_` => UNDERSCORE, Ident => keyword | type | IDENT
    iet = prog.body(LS + "inner_extend_token")
    und = False
    for p in SymExec(prog, iet, max_paths=5000).paths():
        for t, c in conds_of(p):
            if isinstance(t, tuple) and t[0] in ("pure", "call") and "eq" in t[1] and ("c", "&str", "_") in t[2] and c == ("ne", (0,)):
                r = deep_strip(p.env.get(0))
                und = r[0] == "tuple" and kn(r[1][1]) == "UNDERSCORE"
    R.ob("C15.2-underscore", "Ident '_' => UNDERSCORE", und, iet.at, "")
    ident_rows = tk2sk.get("Ident", set())
    R.ob("C15.2-ident-classification", "Ident => from_keyword | from_scalar_type | IDENT", None in ident_rows or "IDENT" in ident_rows or len(ident_rows) >= 1, iet.at, f"{sorted(str(x) for x in ident_rows)}")
    # identifiers end at the first non-identifier character; the only exception is an emoji glued to the name, which
    # turns the whole run into InvalidIdent.  Any wider exception makes `name<non-ASCII whitespace>` or `name§` a
    # lexical error / changes the classification of a keyword followed by such a character.
    nfake = 0
    for b in prog.by_crate["oq3_lexer"]:
        if b.npath.endswith("fake_ident_or_unknown_prefix") or not any((b.callee_of(t) or "").endswith("Cursor::fake_ident_or_unknown_prefix") for _, t in b.calls()):
            continue
        badp = []
        for p in SymExec(prog, b, max_visits=1).paths():
            if not any(c[0].endswith("Cursor::fake_ident_or_unknown_prefix") for c in p.calls):
                continue
            nfake += 1
            em = [truth(c) for t, c in conds_of(p) if isinstance(t, tuple) and t[0] in ("call", "pure") and t[1].endswith("is_emoji_char")]
            asc = [truth(c) for t, c in conds_of(p) if isinstance(t, tuple) and t[0] in ("call", "pure") and t[1].endswith("::is_ascii")]
            if not (em and all(em)) or (asc and any(asc)):
                badp.append([(show(t)[:40], c) for t, c in conds_of(p)][-3:])
        R.ob("C15.2-invalid-ident-only-for-emoji", b.npath.split("::")[-1], not badp, b.at, "every path into fake_ident_or_unknown_prefix has is_emoji_char(next) == true on a non-ASCII character" if not badp else
             f"a path turns an identifier into InvalidIdent without the next character being an emoji: {badp[:2]}")
    R.floor("paths into fake_ident_or_unknown_prefix", nfake, 2)
    R.premises(prog, "C15.1-token-length-premise", ["C14:C14.2-token-construction"], "the text of each classified token is the slice between consecutive offsets, which are sums of the token lengths: Token::new stores the scanned length unchanged (a narrowed length shifts the text of every token after a very long comment or string)")
    R.premises(prog, "C15.3-unit-table-premise", ["C10:C10.1-"], "a number directly followed by a unit is split into number + identifier by the same unit table that validation and the AST accessor use")
    import scanners
    scanners.exponent_markers(prog, R, "C15.3-exponent-markers")
    scanners.leading_zero_check(prog, R, "C15.3-leading-zero-continues")
    scanners.keyword_prefix_check(prog, R, "C15.2-keyword-prefix-consumption")
    scanners.pound_arm_check(prog, R, "C15.2-pound-words")
    scanners.at_arm_check(prog, R, "C15.2-at-sign")
    scanners.line_bounded_check(prog, R, "C15.4-line-bounded")
    scanners.whitespace_check(prog, R, "C15.5-whitespace-class")
    # word-like lexer directives (`OPENQASM`, `pragma`, `#pragma`) are recognised only when whitespace follows the
    # word: otherwise an identifier that merely starts with it (`pragma2`, `OPENQASMx`) would change its token class
    for wfn in ("oq3_lexer::Cursor::have_pragma", "oq3_lexer::Cursor::have_openqasm"):
        wb = R.anchor(prog, wfn)
        if not wb:
            continue
        ntrue, badw = 0, []
        for p in SymExec(prog, wb, max_visits=1, max_paths=2000).paths():
            if "__diverged__" in p.env:
                continue
            r = deep_strip(p.env.get(0))
            cs = [(show(t), c) for t, c in conds_of(p)]
            is_true = r == ("c", "bool", 1)
            is_ws_ret = show(r).startswith("is_whitespace(first(")
            if is_true:
                ntrue += 1
                if not (cs and cs[-1][0].startswith("is_whitespace(first(") and truth(cs[-1][1])):
                    badw.append(cs[-1:] if cs else "unconditional")
            elif is_ws_ret:
                ntrue += 1
        R.ob("C15.2-directive-word-boundary", wfn.split("::")[-1], ntrue >= 1 and not badw, wb.at, f"{ntrue} accepting path(s), each decided by is_whitespace(first())" if not badw else f"accepted without `is_whitespace(next)`: {badw[:2]}")
    scanners.string_scanners_agree(prog, R, "C15.3-string-scanners-agree")
    scanners.string_flags_check(prog, R, "C15.3-string-flags")
    # block comments: the opener is two characters; its `*` is consumed before the nesting loop starts (otherwise
    # `/*/` closes itself and the comment body is lexed as ordinary tokens)
    bcm = R.anchor(prog, "oq3_lexer::Cursor::block_comment")
    if bcm:
        loops = bcm.natural_loops()
        dom = bcm.dominators()
        okb, det = False, "no loop found"
        if loops:
            h, blocks = loops[0]
            pre = [bi for bi, t in bcm.calls() if (bcm.callee_of(t) or "").endswith("Cursor::bump") and bi in dom[h] and bi not in blocks]
            okb = len(pre) == 1
            det = f"{len(pre)} bump(s) dominate the loop header bb{h} from outside the loop (expected exactly one: the opener's `*`)"
        R.ob("C15.4-block-comment-opener", "the `*` of `/*` is consumed before the nesting loop", okb, bcm.at, det)
        # inside the loop every change of the nesting depth follows the consumption of the *second* character of
        # `/*` or `*/` (else `/*/` counts as opener and closer at once)
        if loops:
            h, blocks = loops[0]
            dl = [i for i, l in enumerate(bcm.locals) if l.get("name") == "depth"]
            inloop_bumps = [bi for bi, t in bcm.calls() if (bcm.callee_of(t) or "").endswith("Cursor::bump") and bi in blocks]
            upd = []
            for bi, si, st in bcm.stmts_with_pos():
                if bi in blocks and st["k"] == "assign" and st["rv"]["k"] == "binop" and st["rv"]["op"] in ("AddWithOverflow", "SubWithOverflow", "Add", "Sub"):
                    a_ = st["rv"]["a"]
                    if a_.get("k") in ("copy", "move") and dl and a_["pl"]["l"] == dl[0]:
                        upd.append(bi)
            badu = [u for u in upd if sum(1 for b_ in inloop_bumps if b_ in dom[u]) < 2]
            R.ob("C15.4-block-comment-nesting", "depth changes only after both characters of `/*` / `*/` are consumed", len(upd) >= 2 and not badu, bcm.at,
                 f"{len(upd)} depth updates in the loop, each dominated by the loop's bump and a second bump" if len(upd) >= 2 and not badu else f"{len(badu)} of {len(upd)} depth update(s) are not preceded by the consumption of the marker's second character")
            # ... and a second character is consumed only after it was peeked: every bump in the loop other than the
            # loop's own (the one all other loop blocks are dominated by) is dominated by a Cursor::first() call of the
            # same iteration.  A character consumed unseen may be the first character of the next marker (`**/`).
            firsts = [bi for bi, t in bcm.calls() if (bcm.callee_of(t) or "").endswith("Cursor::first") and bi in blocks]
            own = [b_ for b_ in inloop_bumps if all(b_ in dom[o] for o in inloop_bumps)]
            unseen = [b_ for b_ in inloop_bumps if b_ not in own and not any(f_ in dom[b_] for f_ in firsts)]
            R.ob("C15.4-block-comment-peek", "inside a block comment a second character is consumed only after first() looked at it", len(own) == 1 and len(inloop_bumps) >= 3 and not unseen, bcm.at,
                 f"{len(inloop_bumps)} bumps in the loop: the loop's own and {len(inloop_bumps) - len(own)} each dominated by a first() peek" if len(own) == 1 and not unseen else
                 f"bump(s) in bb{unseen} consume a character that was never peeked (loop's own bump: bb{own}): in `**/` the second `*` is swallowed as the character after the first one, so the comment is not closed where the same comment written `* */` is")
    # version header: all the whitespace between `OPENQASM` and the version number belongs to the header token
    # (any amount, any flavour): openqasm_version() is dominated by eat_while(is_whitespace)
    if at:
        dom = at.dominators()
        ov = [bi for bi, t in at.calls() if (at.callee_of(t) or "").endswith("Cursor::openqasm_version")]
        ew = []
        for bi, t in at.calls():
            if (at.callee_of(t) or "").endswith("Cursor::eat_while"):
                og = origins(prog, at, t["args"][1], max_depth=3) if len(t["args"]) > 1 else set()
                if any(o[0] == "fnitem" and (o[1] or "").endswith("is_whitespace") for o in og):
                    ew.append(bi)
        okv = len(ov) == 1 and any(e in dom[ov[0]] for e in ew)
        R.ob("C15.5-version-header-whitespace", "eat_while(is_whitespace) dominates openqasm_version()", okv, at.blocks[ov[0]].term["at"] if ov else at.at,
             "all whitespace after OPENQASM is skipped before the version number is scanned" if okv else "the version scanner is not preceded by eat_while(is_whitespace): `OPENQASM  3;` with more than one blank (or a tab/newline mix) lexes differently from `OPENQASM 3;`")
    # ---- C15.3 sibling numeric arms
    if at:
        ps, _ = paths(prog, at.npath, 50000)
        proto = {}
        for p in ps:
            if "__diverged__" in p.env:
                continue
            names = [c[0].split("::")[-1] for c in p.calls]
            for scanner in ("number", "float_with_no_leading_digit"):
                if scanner in names:
                    tail = tuple(names[names.index(scanner) + 1:])
                    proto.setdefault(scanner, set()).add(tail)
        R.ob("C15.3-numeric-arms-agree", "suffix protocol", proto.get("number") == proto.get("float_with_no_leading_digit") and bool(proto.get("number")), at.at,
             f"calls after the numeric scanner: digit arm {sorted(proto.get('number', []))}; '.'-digit arm {sorted(proto.get('float_with_no_leading_digit', []))}")
        strp = {}
        for p in ps:
            if "__diverged__" in p.env:
                continue
            names = [c[0].split("::")[-1] for c in p.calls]
            for scanner in ("double_quoted_string", "single_quoted_string"):
                if scanner in names:
                    term = [c for t, c in conds_of(p) if isinstance(t, tuple) and t[0] == "field" and t[2] == 0 and isinstance(t[1], tuple) and t[1][0] == "call" and t[1][1].endswith(scanner)]
                    eats = "eat_literal_suffix" in names
                    if term:
                        strp.setdefault(scanner, set()).add(((term[0] == ("ne", (0,))) if term[0][0] == "ne" else term[0][1] != 0, eats))
        ok = all(all(t == e for t, e in v) for v in strp.values()) and len(strp) == 2
        R.ob("C15.3-string-suffix", "a suffix is eaten iff the string is terminated", ok, at.at, f"{ {k: sorted(v) for k, v in strp.items()} }")
    # ---- C15.5 trivia
    it = R.anchor(prog, "oq3_parser::syntax_kind::SyntaxKind::is_trivia")
    if it:
        triv = set()
        for n, d in prog.enum_variants(SK):
            outs = SymExec(prog, it).paths({1: ("adt", SK + "::" + n, ())})
            v = {p.env.get(0) for p in outs if "__diverged__" not in p.env}
            if v == {("c", "bool", 1)}:
                triv.add(n)
        R.ob("C15.5-trivia", "is_trivia == {WHITESPACE, COMMENT}", triv == {"WHITESPACE", "COMMENT"}, it.at, f"{sorted(triv)}")
    ti = R.anchor(prog, "oq3_parser::shortcuts::LexedStr::to_input")
    if ti:
        trivia_resets_joint(prog, R, ti, "C15.5-trivia")
        # was_joint is set false on trivia and true after a non-trivia token; Input::was_joint() only under the flag
        ps = SymExec(prog, ti, max_visits=2, max_paths=3000).paths()
        bad = 0
        n = 0
        for p in ps:
            seq = []
            for c in p.conds:
                if c[0] == "switch" and "is_trivia" in show(c[1]):
                    seq.append("T" if c[2] != ("eq", 0) else "N")
            wj = [c for c in p.calls if c[0].endswith("Input::was_joint")]
            n += 1
            # a joint mark (other than the float rule) requires two adjacent non-trivia tokens
            float_marks = sum(1 for c in p.conds if c[0] == "switch" and "ends_with" in show(c[1]) and c[2] == ("eq", 0))
            adj = sum(1 for a, b in zip(seq, seq[1:]) if a == "N" and b == "N")
            if len(wj) - float_marks > adj:
                bad += 1
        R.ob("C15.5-trivia", "jointness is recorded only between adjacent non-trivia tokens", bad == 0 and n > 5, ti.at, f"{n} paths (two iterations): #was_joint() <= #adjacent non-trivia pairs (+ float rule)")
