"""C04 — valid programs are accepted with zero diagnostics (necessary structural conditions)."""
import json, os
from kernel import *
import grammar_run, grammar_ai
from gram import *

SK = "oq3_parser::syntax_kind::syntax_kind_enum::SyntaxKind"
ITEM, STMT = "oq3_parser::grammar::items::item", "oq3_parser::grammar::expressions::stmt"


def run(prog, R):
    R.explanation = ("Necessary conditions of acceptance decided with the token-kind abstract interpreter: FIRST-set consistency (every token on which the "
                     "expression parser `lhs` can succeed is admitted by the guard of expr_bp/stmt, and every specification expression-start token is), statement "
                     "dispatch coverage (every statement-starting token reaches a handler with a diagnostic-free outcome), assignment operators bind below every "
                     "binary operator, and the list end-token table per list flavor.")
    R.not_decided = ["language inclusion of the reference grammar in the accepted language (contexts beyond these tables)", "layout independence (see C15)"]
    R.assumptions = ["spec/expr_first.json, spec/statements.json", "abstract interpreter models (see C01)"]
    G = grammar_run.get(prog)
    A = G.alphabet
    # ---- C04.1 FIRST-set consistency
    ef = prog.consts.get("oq3_parser::grammar::expressions::EXPR_FIRST")
    if not ef or "bits" not in ef:
        R.ob("ANCHOR", "EXPR_FIRST", False)
        return
    EXPR_FIRST = int(ef["bits"])
    cls = 0
    for k in ("ANGLE_TY", "BIT_TY", "BOOL_TY", "COMPLEX_TY", "DURATION_TY", "FLOAT_TY", "INT_TY", "STRETCH_TY", "UINT_TY", "ARRAY_KW"):
        cls |= 1 << G.kdisc[k]
    # classical-type predicate re-derived from the analysed table (is_classical_type is inlined by the interpreter; use its MIR)
    from sym import SymExec
    b = prog.body("oq3_parser::grammar::SyntaxKind::is_classical_type")
    if b:
        got = 0
        for kbit in grammar_ai.bits(A):
            se = SymExec(prog, b, inline=lambda c: c.startswith("oq3_parser::syntax_kind") or c.startswith("oq3_parser::grammar::SyntaxKind"))
            outs = se.paths({1: ("adt", SK + "::" + G.kname[kbit], ())})
            vals = {p.env.get(0) for p in outs if "__diverged__" not in p.env}
            if vals == {("c", "bool", 1)}:
                got |= 1 << kbit
        R.ob("C04.1-classical-type-table", "is_classical_type", got == cls, b.at, f"is_classical_type holds for {grammar_run.names(G, got, 12)}")
        cls = got
    else:
        R.ob("ANCHOR", "is_classical_type", False)
    guard = EXPR_FIRST | cls
    H = 0
    for (kn, pref), outs in G.lhs_probe.items():
        if any(o[0] for o in outs):
            H |= 1 << G.kdisc[kn]
    R.floor("lhs probes", len(G.lhs_probe), 180)
    for kbit in grammar_ai.bits(H):
        kn = G.kname[kbit]
        R.ob("C04.1-first-consistency", kn, bool(guard & (1 << kbit)), prog.body("oq3_parser::grammar::expressions::lhs").at,
             f"`lhs` can parse an expression starting with {kn}, but the guard of expr_bp/stmt (EXPR_FIRST or a classical type) rejects it before `lhs` is tried" if not guard & (1 << kbit) else "admitted by the guard")
    spec = json.load(open(os.path.join(VERIF, "spec", "expr_first.json")))["first"]
    for kn in spec:
        ok = kn in G.kdisc and bool(guard & (1 << G.kdisc[kn]))
        R.ob("C04.1-spec-first-admitted", kn, ok, "", f"specification expression-start token {kn} is in EXPR_FIRST or is a classical type")
        okh = kn in G.kdisc and bool(H & (1 << G.kdisc[kn]))
        R.ob("C04.1-spec-first-parsed", kn, okh, "", f"`lhs` has a successful outcome when the first token is {kn}")
    # list items: index lists, case values and array literals parse their items as expressions behind a guard of
    # their own; every specification expression-start token must get through it
    R.floor("list item probes", len(G.list_probe), 250)
    for fn in sorted({k[0] for k in G.list_probe}):
        for kn in spec:
            if kn == "MEASURE_KW":
                continue        # measureExpression is not an `expression` of the reference grammar: only a declaration / assignment right-hand side
            outs = G.list_probe.get((fn, kn))
            ok = outs is not None and any(c and not e for c, e in outs)
            R.ob("C04.1-list-item-first", f"{fn.split('::')[-1]}:{kn}", ok, prog.body(fn).at,
                 f"outcomes (consumed, diagnostic) of {fn.split('::')[-1]} when an item starts with {kn}: {outs}; a valid expression item needs a consuming, diagnostic-free outcome")
    import C01
    C01.composite_jointness(prog, R, "C04.5-composite-operators")
    # ---- C04.2 statement dispatch coverage
    starts = json.load(open(os.path.join(VERIF, "spec", "statements.json")))["starts"]
    for kn in starts:
        for fn in (ITEM, STMT):
            d = G.dispatch.get((fn, (kn,)))
            ok = d is not None and any((c and not e) for (c, e) in d["outs"])
            R.ob("C04.2-statement-dispatch", f"{fn.split('::')[-1]}:{kn}", ok, prog.body(fn).at,
                 f"outcomes (consumed, diagnostic) when the statement starts with {kn}: {d['outs'] if d else None}; a valid statement needs a consuming, diagnostic-free outcome")
    # ---- C04.2 valid statement prefixes: each listed prefix of a valid statement has a consuming, diagnostic-free
    # outcome at both statement entry points (the rest of the input being arbitrary)
    ex = {tuple(e["tokens"]): e["example"] for e in json.load(open(os.path.join(VERIF, "spec", "valid_prefixes.json")))["prefixes"]}
    npf = 0
    for (toks, fn), outs in sorted(G.prefix_probe.items(), key=lambda kv: (kv[0][0], str(kv[0][1]))):
        npf += 1
        ok = outs is not None and any(c and not e for c, e in outs)
        R.ob("C04.2-valid-prefix", f"{fn.split('::')[-1]}:{' '.join(toks)}", ok, prog.body(fn).at if fn in prog.bodies else "",
             f"`{ex.get(toks, '?')}`: outcomes (consumed, diagnostic) {outs}" + ("" if ok else ": every parse of a statement beginning with these tokens reports a diagnostic"))
    R.floor("valid statement prefix probes", npf, 200)
    # ---- C04.2 expression positions stay expression positions: every call site of the grammar that hands over to an
    # expression parser is still reached with each specification expression-start token it was reached with when the
    # table was frozen (a token diverted to a more special sub-parser truncates the expression: `for i in f(n)`)
    from collections import defaultdict as _dd
    per = _dd(list)
    for (caller, callee, bb), mask in G.edge_first.items():
        per[(caller, callee)].append((bb, mask))
    nee = 0
    EDGES_ = json.load(open(os.path.join(VERIF, "spec", "expr_edges.json")))
    for e in EDGES_:
        nee += 1
        lst = sorted(per.get((e["caller"], e["callee"]), []))
        key = f"{short(e['caller'])}->{e['callee'].split('::')[-1]}:{e['ordinal']}"
        if e["ordinal"] >= len(lst):
            # the hand-over may have moved into a helper of the caller (e.g. `'(' expr ')'` shared by if / while /
            # switch): the helper's own hand-overs are then reached with at least the frozen tokens
            frozen_callers = {x["caller"] for x in EDGES_}
            cgx = prog.callgraph()
            hm = 0
            for h_ in cgx.get(e["caller"], ()):
                if h_ in frozen_callers or not h_.startswith("oq3_parser::grammar::"):
                    continue
                for bb_, m_ in per.get((h_, e["callee"]), []):
                    hm |= m_
            lost_h = [k for k in e["admits"] if k in G.kdisc and not hm & (1 << G.kdisc[k])]
            if hm and not lost_h:
                R.ob("C04.2-expression-position", key, True, prog.body(e["caller"]).at if prog.body(e["caller"]) else "", "reached through a helper of the caller with all the frozen expression-start tokens")
                continue
            R.ob("C04.2-expression-position", key, False, prog.body(e["caller"]).at if prog.body(e["caller"]) else "", "this hand-over to the expression parser no longer exists (or is never reached): its admitted tokens cannot be compared; re-confirm the table (tools/gen_expr_edges.py)")
            continue
        mask = lst[e["ordinal"]][1]
        lost = [k for k in e["admits"] if k in G.kdisc and not mask & (1 << G.kdisc[k])]
        R.ob("C04.2-expression-position", key, not lost, prog.body(e["caller"]).blocks[lst[e["ordinal"]][0]].term["at"],
             f"reached with all {len(e['admits'])} expression-start tokens of the frozen table" if not lost else f"expression-start token(s) {lost} no longer reach this expression position: they are diverted to another sub-parser, which cannot parse a general expression starting with them")
    R.floor("expression positions", nee, 30)
    R.premises(prog, "C04.6-validation-premise", ["C10:C10.1-", "C15:C15.", "C11:C11.1-", "C11:C11.2-", "c01_lexer:C01.1-"], "a valid program gets no diagnostic from the lexer or the validation pass either: unit tables of lexer / validation / accessor agree, whitespace and directive word classes are the documented ones")
    # ---- C04.3 assignment binds below binary operators
    import C05
    tab = C05.op_table(G)
    bp = {k: sorted(v)[0][0] for k, v in tab.items() if k != "?"}
    prec = json.load(open(os.path.join(VERIF, "spec", "precedence.json")))
    binops = [o for l in prec["levels"] if not l.get("prefix") for o in l["ops"] if o in bp] + [o for o in prec["other_binary"] if o in bp]
    lo = min(bp[o] for o in binops)
    for o in prec["assignment_ops"]:
        if o in bp:
            R.ob("C04.3-assignment-rhs", o, bp[o] < lo, prog.body(C05.CUR_OP).at, f"{o}: binding power {bp[o]}, lowest binary operator {lo}: `x {o} a + b;` must take `a + b` as right-hand side")
    # ---- C04.3 longest operator first: where one composite operator is a prefix of another (`>>` / `>>=`, `<<` / `<<=`,
    # `..` / `..=`), current_op returns the shorter one only after the test for the longer one failed; otherwise the
    # longer operator is split (`a >>= 1` read as `a >> = 1`, a syntax error on a valid program)
    from sym import SymExec as _SE, show as _show, deep_strip as _ds
    co_ = prog.body(C05.CUR_OP)
    if co_ is None:
        R.ob("ANCHOR", C05.CUR_OP, False)
    else:
        rows_ = []
        for q_ in _SE(prog, co_, max_visits=1, max_paths=5000).paths():
            if "__diverged__" in q_.env:
                continue
            ret_ = _show(_ds(q_.env.get(0)))
            k_ = ret_.split("SyntaxKind::")[1].split(",")[0].strip(") ") if "SyntaxKind::" in ret_ else None
            cs_ = {(_show(_ds(c[1]))[len("at(p, SyntaxKind::"):-1]): (c[2][0] == "ne") for c in q_.conds if c[0] == "switch" and _show(_ds(c[1])).startswith("at(p, SyntaxKind::")}
            rows_.append((k_, cs_))
        kinds_ = {k for k, _ in rows_ if k}
        pairs_ = sorted((k, k + "EQ") for k in kinds_ if k + "EQ" in kinds_ and len(k) > 2 and any(cs.get(k) for kk, cs in rows_ if kk == k))
        badp_ = [(k, kl) for k, kl in pairs_ for kk, cs in rows_ if kk == k and cs.get(kl) is not False]
        R.ob("C04.3-longest-operator-first", "a composite operator that is a prefix of another is returned only after the longer one was ruled out", len(pairs_) >= 3 and not badp_, co_.at,
             f"pairs {pairs_}: each path returning the shorter operator has tested at(longer) == false" if not badp_ else
             f"{sorted(set(badp_))}: the shorter operator is returned without (or before) the test for the longer one, so the longer operator is split into the shorter one and `=`")
    # ---- C04.4 list end tokens per flavor
    ALE = "oq3_parser::grammar::params::at_list_end_token"
    fl = prog.enum_variants("oq3_parser::grammar::params::DefFlavor")
    want = {"GateParams": {"R_PAREN"}, "GateQubits": {"L_CURLY"}, "GateCallQubits": {"SEMICOLON"}, "DefParams": {"R_PAREN"}, "DefCalParams": {"R_PAREN"}, "DefCalQubits": {"L_CURLY", "MINUS"},
            "ExpressionList": {"R_BRACK"}, "ArrayLiteral": {"R_CURLY"}, "CaseValues": {"L_CURLY"}, "TypeListFlavor": {"R_PAREN"}}
    got = {}
    for key, outs in G.memo.items():
        if key[0] != ALE:
            continue
        fa = key[2][1]
        if fa[0] != "agg":
            continue
        name = fl[fa[2]][0]
        for o in outs:
            if o[5] == ("b", 1):
                got.setdefault(name, set()).update(G.kname[b] for b in grammar_ai.bits(o[0][0]))
    for name, w in want.items():
        R.ob("C04.4-list-end-table", name, got.get(name) == w, prog.body(ALE).at if prog.body(ALE) else "", f"end tokens of flavor {name}: {sorted(got.get(name, []))} (expected {sorted(w)})")
    R.floor("list flavors", len(fl or []), 10)
    # ---- C04.4 comma-separated lists are homogeneous: a grammar function that parses the first item before its comma
    # loop parses the later items with the same item parser (sibling agreement between the two positions).  A list whose
    # first item may be a range and whose later items may not (`a[0, 1:3]`) rejects valid programs that no probe window
    # of the interpreter is long enough to hold.  Exception, reviewed: array_type_spec (`array[int, 3, 4]`: a type, then
    # the dimensions).
    HETERO = {"oq3_parser::grammar::expressions::array_type_spec": "array[<type>, <dim>, ...]: the first position is the element type, the others are dimension expressions"}
    nlist, badl = 0, []
    for k_, b_ in sorted(prog.bodies.items()):
        if not k_.startswith("oq3_parser::grammar::") or "{closure" in k_:
            continue
        loops_ = b_.natural_loops()
        if not loops_:
            continue
        dom_ = b_.dominators()
        for h_, blocks_ in loops_:
            comma_ = any(bi in blocks_ and (b_.callee_of(t) or "").endswith(("Parser::eat", "Parser::at", "Parser::expect", "Parser::nth_at")) and '"COMMA"' in json.dumps(b_.blocks[bi].stmts) for bi, t in b_.calls())
            if not comma_:
                continue
            nlist += 1
            inl_ = {(b_.callee_of(t) or "") for bi, t in b_.calls() if bi in blocks_ and (b_.callee_of(t) or "").startswith("oq3_parser::grammar::")}
            pre_ = {(b_.callee_of(t) or "") for bi, t in b_.calls() if bi not in blocks_ and bi in dom_[h_] and (b_.callee_of(t) or "").startswith("oq3_parser::grammar::")}
            odd_ = sorted(c.split("::")[-1] for c in pre_ - inl_)
            if odd_ and k_ in HETERO:
                R.reviewed("C04.4-list-items-homogeneous", k_.split("grammar::")[-1], b_.at, HETERO[k_])
            elif odd_:
                badl.append((k_.split("grammar::")[-1], odd_, sorted(c.split("::")[-1] for c in inl_)))
    R.ob("C04.4-list-items-homogeneous", "the item before a comma loop is parsed by an item parser of the loop", nlist >= 4 and not badl, "",
         f"{nlist} comma loops in grammar functions; none parses its first item differently" if not badl else
         f"(function, first-item parser, loop item parsers) {badl[:2]}: items after a comma are parsed by a different parser than the first item, so a construct allowed in first position (a range, say) is a syntax error in the others")
