"""C19 — the symbol table behaves as a stack of scopes.

Premises of the representation-invariant argument (DESIGN.md C19.1–C19.6),
each decided on the MIR of oq3_semantics::symbols for all paths / all sites.
"""
from kernel import *
from sym import SymExec, show, strip_transparent, must_conds, deep_strip

ST = "oq3_semantics::symbols::SymbolTable"
SST = "oq3_semantics::symbols::ScopeSymbolTable"
SID = "oq3_semantics::symbols::SymbolId"
M = "oq3_semantics::symbols::"

DERIVES = ("as std::clone::Clone>::clone", "as std::fmt::Debug>::fmt", "as std::cmp::PartialEq>::eq", "as std::hash::Hash>::hash", "as std::cmp::Eq>::assert_receiver_is_total_eq", "as std::cmp::Eq>::assert_fields_are_eq")


def is_derive(b):
    return b.npath.startswith("<") and b.npath.endswith(DERIVES)


def mut_sites(prog, adt, fname):
    """Sites that can mutate a field: writes, &mut borrows, raw pointers, moves out."""
    out = []
    for s in field_sites(prog, adt, fname):
        if s["mode"] in ("write", "refmut", "rawptr", "move"):
            out.append(s)
    return out


def sink_calls(prog, body, site):
    """For a `_x = &mut place` site: the calls the borrow finally flows into."""
    st = site["stmt"]
    if site["idx"] == "T" or st.get("k") != "assign" or st["lhs"]["p"]:
        return [("other", "not a simple borrow", site["bb"])]
    return forward_sinks(prog, body, st["lhs"]["l"])


def run(prog, R):
    R.explanation = ("Static who-may-write / dominance / control-dependence rules over the MIR of "
                     "oq3_semantics::symbols: the premises under which SymbolTable is a stack of maps with an "
                     "append-only symbol store (all_symbols.len()==counter; ids only from the counter; push/pop only in "
                     "enter/exit_scope; lookup scans innermost-first and returns the first hit; binding fails iff the "
                     "current scope has the name; built-ins bound in new()).")
    R.not_decided = ["the induction itself (invariant preserved by each operation => stack-of-maps behaviour for every history) is a prose argument over the checked premises",
                     "behaviour of hashbrown::HashMap and Vec"]
    R.assumptions = ["hashbrown::HashMap::{insert,get,contains_key} and Vec::{push,pop,last,last_mut} behave as documented",
                     "rustc MIR (nightly, opt-level 0) is a faithful lowering of the source"]
    nb = R.anchor(prog, M + "SymbolTable::new_binding_no_check")
    lk = R.anchor(prog, M + "SymbolTable::lookup")
    new = R.anchor(prog, M + "SymbolTable::new")
    nbind = R.anchor(prog, M + "SymbolTable::new_binding")
    ent = R.anchor(prog, M + "SymbolTable::enter_scope")
    ext = R.anchor(prog, M + "SymbolTable::exit_scope")
    pinc = R.anchor(prog, M + "SymbolId::post_increment")
    csm = R.anchor(prog, M + "SymbolTable::current_scope_mut")
    lonb = R.anchor(prog, M + "SymbolTable::lookup_or_new_binding")
    if not all([nb, lk, new, nbind, ent, ext, pinc, csm, lonb]):
        return
    if ST not in prog.adts or SST not in prog.adts:
        R.ob("ANCHOR", "SymbolTable-adt", False, "", "struct SymbolTable / ScopeSymbolTable not found")
        return
    fields = [f["name"] for f in prog.adts[ST]["variants"][0]["fields"]]
    for want in ("scope_symbol_table_stack", "all_symbols", "symbol_id_counter"):
        R.ob("ANCHOR", "field:" + want, want in fields, "", f"SymbolTable fields = {fields}")
    for f in prog.adts[ST]["variants"][0]["fields"]:
        R.ob("C19.0-private-state", "SymbolTable." + f["name"], f["vis"] != "pub" and f["vis"] != "crate", "",
             f"field {f['name']} visibility {f['vis']}: the representation must not be writable outside symbols.rs")
    for f in prog.adts[SST]["variants"][0]["fields"]:
        R.ob("C19.0-private-state", "ScopeSymbolTable." + f["name"], f["vis"] not in ("pub", "crate"), "", f"visibility {f['vis']}")
    sidf = prog.adts[SID]["variants"][0]["fields"][0]
    R.ob("C19.0-private-state", "SymbolId.0", sidf["vis"] not in ("pub", "crate"), "", f"visibility {sidf['vis']}: ids cannot be forged outside symbols.rs")

    # ---------------- C19.1 append-only store
    n = 0
    for s in mut_sites(prog, ST, "all_symbols"):
        b = s["body"]
        if is_derive(b):
            continue
        n += 1
        okfn = b.npath == nb.npath
        sinks = sink_calls(prog, b, s) if s["mode"] == "refmut" else [("other", s["mode"], s["bb"])]
        oksink = all(x[0] == "call" and x[1] in ("std::vec::Vec::push", "alloc::vec::Vec::push") and x[2] == 0 for x in sinks) and sinks
        R.ob("C19.1-all_symbols-append-only", f"{b.npath}:{s['mode']}:{'/'.join(sorted(set(str(x[1]) for x in sinks)))}", okfn and oksink, s["at"],
             f"mutable access to SymbolTable.all_symbols in {b.npath} flowing to {sinks}; allowed: only Vec::push in new_binding_no_check")
    R.floor("all_symbols mutable sites", n, 1)
    n = 0
    for s in mut_sites(prog, ST, "symbol_id_counter"):
        b = s["body"]
        if is_derive(b):
            continue
        n += 1
        sinks = sink_calls(prog, b, s) if s["mode"] == "refmut" else [("other", s["mode"], s["bb"])]
        ok = b.npath == nb.npath and sinks and all(x[0] == "call" and x[1] == pinc.npath and x[2] == 0 for x in sinks)
        R.ob("C19.1-counter-only-post_increment", f"{b.npath}:{s['mode']}", ok, s["at"],
             f"mutable access to SymbolTable.symbol_id_counter in {b.npath} flowing to {sinks}; allowed: only SymbolId::post_increment in new_binding_no_check")
    R.floor("symbol_id_counter mutable sites", n, 1)
    # exactly once on every path of new_binding_no_check
    dom = nb.dominators()
    sccs = nb.sccs()
    inloop = set().union(*sccs) if sccs else set()
    for name, cal in (("push", ("std::vec::Vec::push", "alloc::vec::Vec::push")), ("post_increment", (pinc.npath,)), ("scope-insert", (M + "ScopeSymbolTable::insert",))):
        blocks = [bi for bi, t in nb.calls() if nb.callee_of(t) in cal]
        ok = len(blocks) == 1 and all(blocks[0] in dom[e] for e in nb.exits()) and blocks[0] not in inloop and len(nb.exits()) >= 1
        R.ob("C19.1-exactly-once", f"new_binding_no_check:{name}", ok, nb.at,
             f"call blocks {blocks}; must be a single call that dominates every return and is not in a loop")
    # post_increment: returns the old value, adds exactly 1
    se = SymExec(prog, pinc)
    ps = [p for p in se.paths() if "__diverged__" not in p.env]
    ok = len(ps) == 1
    if ok:
        p = ps[0]
        ret = strip_transparent(p.env.get(0))
        stores = [s for s in p.stores]
        ok_ret = ret == ("arg", 1, "self")
        ok_store = len(stores) == 1 and stores[0][1] == ("field", ("bin", "AddWithOverflow", ("field", ("arg", 1, "self"), 0), ("c", "usize", 1)), 0)
        # the clone must precede the store (ret is the value before the increment): clone call block dominates store block
        clone_bb = [c[2] for c in p.calls][:1]
        ok_order = bool(clone_bb) and clone_bb[0] in pinc.dominators()[stores[0][2]] and clone_bb[0] != stores[0][2] if stores else False
        R.ob("C19.1-post_increment", "returns-old-adds-one", ok_ret and ok_store and ok_order, pinc.at,
             f"return={show(ret)} stores={[(s[0], show(s[1])) for s in stores]} clone-before-store={ok_order}")
    else:
        R.ob("C19.1-post_increment", "returns-old-adds-one", False, pinc.at, f"{len(ps)} paths")
    # the state of the table is exactly the scope stack, the symbol store and the id counter: the stack-of-maps argument
    # (a look-up depends only on the open scopes) does not cover any further state such as a cache of earlier answers
    extra = sorted(set(fields) - {"symbol_id_counter", "all_symbols", "scope_symbol_table_stack"})
    missing = sorted({"symbol_id_counter", "all_symbols", "scope_symbol_table_stack"} - set(fields))
    R.ob("C19.0-state-fields", "SymbolTable state = {scope stack, symbol store, id counter}", not extra and not missing, new.at,
         f"fields {fields}" if not extra and not missing else f"SymbolTable has additional state {extra} (missing {missing}): answers of lookup / new_binding may now depend on the history of calls, not only on the open scopes (e.g. a memo that survives exit_scope)")
    # new(): store starts empty and counter at SymbolId::new() (== 0)
    se = SymExec(prog, new, max_visits=2)
    agg = None
    for bi, si, s_ in new.stmts_with_pos():
        if s_["k"] == "assign" and s_["rv"]["k"] == "agg" and norm(s_["rv"].get("adt", "")) == ST:
            agg = (bi, s_)
    if agg:
        d = Defs(new)
        okf = []
        for i, fname in enumerate(fields):
            o = origins(prog, new, agg[1]["rv"]["fields"][i], _defs=d)
            calls = {x[1] for x in o if x[0] == "call"}
            want = {"all_symbols": {"std::vec::Vec::new", "alloc::vec::Vec::new"}, "scope_symbol_table_stack": {"std::vec::Vec::new", "alloc::vec::Vec::new"}, "symbol_id_counter": {M + "SymbolId::new"}}.get(fname)
            if want is None:
                continue        # an additional field: reported by C19.0-state-fields
            okf.append(bool(calls) and calls <= want)
        R.ob("C19.1-initial-state", "SymbolTable::new aggregate", all(okf), agg[1]["at"], f"field initialisers ok={okf} (Vec::new, Vec::new, SymbolId::new)")
    else:
        R.ob("C19.1-initial-state", "SymbolTable::new aggregate", False, new.at, "no SymbolTable aggregate in new()")
    sidnew = prog.body(M + "SymbolId::new")
    if sidnew:
        ps = SymExec(prog, sidnew).paths()
        ok = len(ps) == 1 and ps[0].env.get(0) == ("adt", SID + "::SymbolId", (("c", "usize", 0),))
        R.ob("C19.1-initial-state", "SymbolId::new==0", ok, sidnew.at, show(ps[0].env.get(0)) if ps else "")
    # SymbolTable aggregates: only in new() and derives
    for k, b in prog.bodies.items():
        for bi, si, s_ in b.stmts_with_pos():
            if s_["k"] == "assign" and s_["rv"]["k"] == "agg" and norm(s_["rv"].get("adt", "")) == ST:
                R.ob("C19.1-single-constructor", b.npath, b.npath == new.npath or is_derive(b), s_["at"], "SymbolTable value constructed here; allowed: SymbolTable::new and derive(Clone)")

    # ---------------- C19.2 scope stack
    n = 0
    allowed = {ent.npath: ("std::vec::Vec::push",), ext.npath: ("std::vec::Vec::pop",), csm.npath: ("core::slice::last_mut", "core::slice::<impl [T]>::last_mut")}
    for s in mut_sites(prog, ST, "scope_symbol_table_stack"):
        b = s["body"]
        if is_derive(b):
            continue
        n += 1
        sinks = sink_calls(prog, b, s) if s["mode"] == "refmut" else [("other", s["mode"], s["bb"])]
        al = allowed.get(b.npath)
        ok = al is not None and sinks and all(x[0] == "call" and (x[1] in al or x[1].replace("alloc::", "std::") in al) and x[2] == 0 for x in sinks)
        R.ob("C19.2-stack-mutators", f"{b.npath}:{'/'.join(sorted(set(str(x[1]) for x in sinks)))}", ok, s["at"],
             f"mutable access to scope_symbol_table_stack in {b.npath} -> {sinks}; allowed: push in enter_scope, pop in exit_scope, last_mut in current_scope_mut")
    R.floor("scope stack mutable sites", n, 3)
    # exit_scope: pop dominated by len > 1
    popb = [bi for bi, t in ext.calls() if ext.callee_of(t) in ("std::vec::Vec::pop", "alloc::vec::Vec::pop")]
    ok = False
    detail = f"pop blocks {popb}"
    if len(popb) == 1:
        mc = must_conds(SymExec(prog, ext).paths(), popb[0]) or set()
        for (d, cond) in mc:
            if d[0] == "bin" and d[1] == "Gt" and d[3] == ("c", "usize", 1) and d[2][0] == "call" and d[2][1].endswith("Vec::len") \
                    and d[2][2][0] == ("field", ("arg", 1, "self"), fields.index("scope_symbol_table_stack")) and cond == ("ne", (0,)):
                ok = True
                detail = f"every path to pop passes {show(d)} == true"
    R.ob("C19.2-exit-guard", "exit_scope:pop-under-len>1", ok, ext.at, detail)
    # who may call enter_scope/exit_scope/current_scope_mut/ScopeSymbolTable::insert
    callers = defaultdict(list)
    for k, b in prog.bodies.items():
        for bi, t in b.calls():
            c = b.callee_of(t)
            if c in (csm.npath, M + "ScopeSymbolTable::insert"):
                callers[c].append((b.npath, t["at"]))
    for c, want in ((csm.npath, nb.npath), (M + "ScopeSymbolTable::insert", nb.npath)):
        for (who, at) in callers[c]:
            R.ob("C19.2-who-may-call", f"{c.split('::')[-1]}<-{who}", who == want, at, f"{c} called from {who}; allowed only from {want}")
        R.floor("callers of " + c.split("::")[-1], len(callers[c]), 1)
    n = 0
    for s in mut_sites(prog, SST, "scope_table"):
        b = s["body"]
        if is_derive(b):
            continue
        n += 1
        sinks = sink_calls(prog, b, s) if s["mode"] == "refmut" else [("other", s["mode"], s["bb"])]
        ok = b.npath == M + "ScopeSymbolTable::insert" and sinks and all(x[0] == "call" and x[1].endswith("HashMap::insert") and x[2] == 0 for x in sinks)
        R.ob("C19.2-scope_table-only-insert", f"{b.npath}", ok, s["at"], f"-> {sinks}")
    R.floor("scope_table mutable sites", n, 1)
    # the map insert in new_binding_no_check binds (name, the fresh id)
    se = SymExec(prog, nb)
    for p in se.paths():
        if "__diverged__" in p.env:
            continue
        ins = [c for c in p.calls if c[0] == M + "ScopeSymbolTable::insert"]
        ok = len(ins) == 1 and strip_transparent(ins[0][1][1]) == ("arg", 2, "name") and strip_transparent(ins[0][1][2])[:2] == ("call", pinc.npath) \
            and strip_transparent(ins[0][1][0])[:2] == ("call", csm.npath)
        ret = strip_transparent(p.env.get(0))
        ok = ok and ret[:2] == ("call", pinc.npath)
        push = [c for c in p.calls if c[0].endswith("Vec::push")]
        okp = len(push) == 1 and push[0][1][1][:2] == ("call", M + "Symbol::new") and strip_transparent(push[0][1][1][2][0]) == ("arg", 2, "name") and strip_transparent(push[0][1][1][2][1]) == ("arg", 3, "typ")
        # push happens before post_increment: id == index of the pushed symbol
        order = [c[0] for c in p.calls if c[0].endswith("Vec::push") or c[0] == pinc.npath]
        oko = order == [push[0][0], pinc.npath] if push else False
        R.ob("C19.1-binding-consistent", "new_binding_no_check:id=index,name,type", ok and okp and oko, nb.at,
             f"insert args={[show(a) for a in ins[0][1]] if ins else None} ret={show(ret)} push={[show(a) for a in push[0][1]] if push else None} order={order}")
    symnew = prog.body(M + "Symbol::new")
    if symnew:
        ps = [p for p in SymExec(prog, symnew).paths() if "__diverged__" not in p.env]
        ok = len(ps) == 1
        if ok:
            r = ps[0].env.get(0)
            ok = r[0] == "adt" and strip_transparent(r[2][0]) == ("arg", 1, "name") and strip_transparent(r[2][1]) == ("arg", 2, "typ")
        R.ob("C19.1-binding-consistent", "Symbol::new stores (name, typ)", ok, symnew.at, show(ps[0].env.get(0)) if ps else "")

    # ---------------- C19.3 lookup
    # the combinator form `stack.iter().rev().find_map(|t| t.get_symbol_id(name)).map(|id| SymbolRecord::new(&all[id.0], id)).ok_or(Missing)`
    # is the same search written without a loop: innermost first (one rev over the scope stack), first hit wins
    # (find_map), the record is built from the id found, Err only when nothing was found
    comb = None
    for p_ in SymExec(prog, lk, max_visits=2).paths():
        r_ = deep_strip(p_.env.get(0)) if "__diverged__" not in p_.env else None
        if isinstance(r_, tuple) and r_[0] == "call" and r_[1].endswith("Option::ok_or"):
            comb = r_
    if comb is not None and not any((t.get("resolved") or "").endswith("::next") for _, t in lk.calls()):
        okc, why = True, []
        err_ = deep_strip(comb[2][1])
        okc = okc and err_ == ("adt", M + "SymbolError::MissingBinding", ())
        mp_ = deep_strip(comb[2][0])
        okm = isinstance(mp_, tuple) and mp_[0] == "call" and mp_[1].endswith("Option::map")
        fm_ = deep_strip(mp_[2][0]) if okm else None
        okf = okm and isinstance(fm_, tuple) and fm_[0] == "call" and fm_[1].endswith("Iterator::find_map")
        chain, t_ = [], deep_strip(fm_[2][0]) if okf else None
        while isinstance(t_, tuple) and t_[0] == "call":
            chain.append(t_[1].split("::")[-1])
            t_ = deep_strip(t_[2][0]) if t_[2] else None
        chain = [c for c in chain if c not in ("deref", "into_iter", "as_slice")]
        okchain = okf and chain == ["rev", "iter"] and t_ == ("field", ("arg", 1, "self"), fields.index("scope_symbol_table_stack"))
        R.ob("C19.3-lookup-innermost-first", "iterator-instance", okchain, lk.at, f"find_map over {chain} of {show(t_) if t_ else None}; required rev(iter(self.scope_symbol_table_stack))")
        R.ob("C19.3-lookup-innermost-first", "iterator-provenance", okchain, lk.at, "iterator = self.scope_symbol_table_stack.iter().rev()")
        good = okc and okm and okf
        det_ = []
        if good:
            c1 = deep_strip(fm_[2][1])
            c2 = deep_strip(mp_[2][1])
            for cl_, want_ in ((c1, "find"), (c2, "build")):
                cb_ = prog.body(cl_[1]) if isinstance(cl_, tuple) and cl_[0] == "closure" else None
                if cb_ is None:
                    good = False
                    det_.append(f"{want_}: not a closure")
                    continue
                rs_ = [deep_strip(q.env.get(0)) for q in SymExec(prog, cb_).paths() if "__diverged__" not in q.env]
                if want_ == "find":
                    # get_symbol_id(<the table handed in>, <captured name>)
                    okr = len(rs_) == 1 and rs_[0][0] == "call" and rs_[0][1] == M + "ScopeSymbolTable::get_symbol_id" and deep_strip(rs_[0][2][0])[0] == "arg" and cl_[2] and deep_strip(cl_[2][0]) == ("arg", 2, "name")
                else:
                    okr = len(rs_) == 1 and rs_[0][0] == "call" and rs_[0][1] == M + "SymbolRecord::new" and "index(" in show(rs_[0][2][0]) and show(rs_[0][2][0]).endswith(".0)") and deep_strip(rs_[0][2][1])[0] in ("arg", "call")
                if not okr:
                    good = False
                    det_.append((want_, [show(x)[:80] for x in rs_]))
        R.ob("C19.3-lookup-first-hit", "returns", good, lk.at, f"combinator form: find_map(get_symbol_id(table, name)) -> SymbolRecord::new(all_symbols[id.0], id) -> ok_or(MissingBinding) {det_}")
        nexts = []
        COMBINATOR_LOOKUP = True
    else:
        COMBINATOR_LOOKUP = False
    nexts = [] if COMBINATOR_LOOKUP else [(bi, t) for bi, t in lk.calls() if (t.get("resolved") or "").endswith("::next")]
    if not COMBINATOR_LOOKUP:
        ok = len(nexts) == 1 and norm(nexts[0][1]["resolved"]) == "<std::iter::Rev<I> as std::iter::Iterator>::next" and "slice::Iter" in json.dumps(nexts[0][1].get("rargs")) and "ScopeSymbolTable" in json.dumps(nexts[0][1].get("rargs"))
        R.ob("C19.3-lookup-innermost-first", "iterator-instance", ok, lk.at, f"lookup iterates with {[(norm(t['resolved']), t.get('rargs')) for _, t in nexts]}; required Rev<slice::Iter<ScopeSymbolTable>>")
    # provenance of the iterator: rev(slice::iter(deref(&self.scope_symbol_table_stack)))
    if nexts:
        se = SymExec(prog, lk, max_visits=2)
        paths = se.paths()
        it_ok = False
        for p in paths:
            for c in p.calls:
                if c[0] == "<std::iter::Rev<I> as std::iter::Iterator>::next":
                    t = c[1][0]
                    t = strip_transparent(t)
                    # into_iter(rev(iter(deref(field(self,0)))))
                    chain = []
                    while isinstance(t, tuple) and t[0] == "call":
                        chain.append(t[1])
                        t = t[2][0] if t[2] else None
                    it_ok = chain[-3:] == ["std::iter::Iterator::rev", "core::slice::iter", "<std::vec::Vec<T, A> as std::ops::Deref>::deref"][-3:] or \
                        [x.split("::")[-1] for x in chain] == ["into_iter", "rev", "iter", "deref"]
                    base = t
                    it_ok = it_ok and base == ("field", ("arg", 1, "self"), fields.index("scope_symbol_table_stack"))
        R.ob("C19.3-lookup-innermost-first", "iterator-provenance", it_ok, lk.at, "iterator = self.scope_symbol_table_stack.iter().rev()")
        # Ok return only inside the loop on Some; Err only on iterator exhaustion; first hit returns (no further next)
        oks, errs = 0, 0
        good = True
        detail = []
        for p in paths:
            if "__diverged__" in p.env or "__cut__" in p.env:
                continue
            r = p.env.get(0)
            nnext = sum(1 for c in p.calls if c[0].endswith("Iterator>::next"))
            conds = [(show(c[1]), c[2]) for c in p.conds if c[0] == "switch"]
            if r[0] == "adt" and r[1].endswith("Result::Ok"):
                oks += 1
                # last condition: get_symbol_id(...) is Some ; record built from all_symbols[id.0] and id
                last = [c for c in p.conds if c[0] == "switch"][-1]
                g = last[1]
                cond_ok = g[0] == "discr" and g[1][0] == "call" and g[1][1] == M + "ScopeSymbolTable::get_symbol_id" and last[2] == ("eq", 1)
                gs = g[1] if cond_ok else None
                name_ok = cond_ok and strip_transparent(gs[2][1]) == ("arg", 2, "name")
                # table argument = the element returned by the *last* next()
                tbl = strip_transparent(gs[2][0]) if cond_ok else None
                tbl_ok = cond_ok and tbl[0] == "field" and tbl[1][0] == "call" and tbl[1][1].endswith("Iterator>::next")
                rec = r[2][0]
                rec_ok = rec[0] == "call" and rec[1] == M + "SymbolRecord::new"
                if rec_ok:
                    sym_t = strip_transparent(rec[2][0])
                    id_t = strip_transparent(rec[2][1])
                    idsrc = ("field", gs, 0) if cond_ok else None
                    rec_ok = sym_t[0] == "call" and sym_t[1].endswith("Index<I>>::index") and sym_t[2][0] == ("field", ("arg", 1, "self"), fields.index("all_symbols")) \
                        and sym_t[2][1] == ("field", idsrc, 0) and id_t == idsrc
                if not (cond_ok and name_ok and tbl_ok and rec_ok):
                    good = False
                    detail.append(("Ok path", conds[-1:], show(r)))
            elif r[0] == "adt" and r[1].endswith("Result::Err"):
                errs += 1
                last = [c for c in p.conds if c[0] == "switch"][-1]
                g = last[1]
                ok_e = g[0] == "discr" and g[1][0] == "call" and g[1][1].endswith("Iterator>::next") and last[2] == ("eq", 0) and r[2][0] == ("adt", M + "SymbolError::MissingBinding", ())
                if not ok_e:
                    good = False
                    detail.append(("Err path", conds[-1:], show(r)))
            else:
                good = False
                detail.append(("other return", show(r)))
        R.ob("C19.3-lookup-first-hit", "returns", good and oks >= 1 and errs >= 1, lk.at,
             f"Ok paths={oks} (each: returned from inside the loop right after get_symbol_id(current table, name) is Some, record = (all_symbols[id.0], id)); Err paths={errs} (only when next() is None) {detail}")
    gsi = prog.body(M + "ScopeSymbolTable::get_symbol_id")
    if gsi:
        ps = [p for p in SymExec(prog, gsi).paths() if "__diverged__" not in p.env]
        ok = len(ps) == 1
        if ok:
            r = ps[0].env.get(0)
            ok = r[0] == "call" and r[1].endswith("HashMap::get") and r[2][0] == ("field", ("arg", 1, "self"), 0) and strip_transparent(r[2][1]) == ("arg", 2, "name")
        R.ob("C19.3-lookup-first-hit", "get_symbol_id=scope_table.get(name)", ok, gsi.at, show(ps[0].env.get(0)) if ps else "")
    else:
        R.ob("ANCHOR", "get_symbol_id", False)
    # lookup_or_new_binding binds only on Err
    for p in SymExec(prog, lonb).paths():
        if "__diverged__" in p.env:
            continue
        binds = [c for c in p.calls if c[0] == nb.npath]
        sw = [c for c in p.conds if c[0] == "switch"]
        is_err = any(c[1][0] == "discr" and c[1][1][0] == "call" and c[1][1][1] == lk.npath and c[2] == ("eq", 1) for c in sw)
        is_ok = any(c[1][0] == "discr" and c[1][1][0] == "call" and c[1][1][1] == lk.npath and c[2] == ("eq", 0) for c in sw)
        ok = (bool(binds) == is_err) and (is_ok != is_err)
        if is_ok:
            r = strip_transparent(p.env.get(0))
            ok = ok and r == ("field", ("field", ("call", lk.npath, (("arg", 1, "self"), ("arg", 2, "name")), r[1][1][3], False), 0), 1) if r[0] == "field" and r[1][0] == "field" and r[1][1][0] == "call" else False
        R.ob("C19.3-lookup_or_new_binding", "binds-iff-Err:" + ("Err" if is_err else "Ok"), ok, lonb.at, f"binds={len(binds)} on path with lookup is_err={is_err}; ret={show(p.env.get(0))}")

    # ---------------- C19.4 the unchecked binder is reachable only behind the two tests decided here (new_binding: name
    # not in the current scope; lookup_or_new_binding: name not visible at all); any other caller can replace a binding
    cgx = prog.callgraph()
    callers_nb = sorted(k for k, v in cgx.items() if nb.npath in v)
    want_nb = sorted([M + "SymbolTable::new_binding", M + "SymbolTable::lookup_or_new_binding"])
    R.ob("C19.4-unchecked-binder-callers", "new_binding_no_check", callers_nb == want_nb, nb.at,
         f"callers: {[c.split('::')[-1] for c in callers_nb]}" if callers_nb == want_nb else
         f"new_binding_no_check is called from {callers_nb} (expected only {want_nb}): a binding made there is not preceded by the test that the name is unbound in the current scope, so it can replace the first binding of the name")
    # ---------------- C19.4 binding fails iff current scope has the name
    cscn = prog.body(M + "SymbolTable::current_scope_contains_name")
    for p in SymExec(prog, nbind).paths():
        if "__diverged__" in p.env:
            continue
        r = p.env.get(0)
        sw = [c for c in p.conds if c[0] == "switch"]
        only = len(sw) == 1 and sw[0][1][0] == "call" and sw[0][1][1] == (cscn.npath if cscn else "") and strip_transparent(sw[0][1][2][1]) == ("arg", 2, "name")
        if r[0] == "adt" and r[1].endswith("Result::Err"):
            ok = only and sw[0][2] == ("ne", (0,)) and r[2][0] == ("adt", M + "SymbolError::AlreadyBound", ()) and not any(c[0] == nb.npath for c in p.calls)
            R.ob("C19.4-bind-fails-iff-current-scope", "Err-path", ok, nbind.at, f"Err(AlreadyBound) under {[(show(c[1]), c[2]) for c in sw]}")
        else:
            okr = r[0] == "adt" and r[1].endswith("Result::Ok") and r[2][0][0] == "call" and r[2][0][1] == nb.npath and [strip_transparent(a) for a in r[2][0][2]] == [("arg", 1, "self"), ("arg", 2, "name"), ("arg", 3, "typ")]
            ok = only and sw[0][2] == ("eq", 0) and okr
            R.ob("C19.4-bind-fails-iff-current-scope", "Ok-path", ok, nbind.at, f"{show(r)} under {[(show(c[1]), c[2]) for c in sw]}")
    if cscn:
        cone = prog.cone([cscn.npath])
        ext_calls = set()
        for f in cone:
            ext_calls |= prog.ext_calls().get(f, set())
        has_last = any(c.endswith("slice::last") or c.endswith("::last") for c in ext_calls)
        has_ck = any(c.endswith("HashMap::contains_key") for c in ext_calls)
        no_iter = not any(c.endswith("::next") or c.endswith("::iter") or "Iterator" in c for c in ext_calls)
        R.ob("C19.4-current-scope-only", "current_scope_contains_name cone", has_last and has_ck and no_iter, cscn.at, f"external calls in cone: {sorted(ext_calls)}")
        # its value is exactly `current_scope().contains_name(name)`: one path, no other scope consulted
        psn = [p for p in SymExec(prog, cscn).paths() if "__diverged__" not in p.env]
        rn = strip_transparent(psn[0].env.get(0)) if len(psn) == 1 else None
        okn = bool(rn) and rn[0] == "call" and rn[1].endswith("contains_name") and strip_transparent(rn[2][0])[0] == "call" and strip_transparent(rn[2][0])[1].endswith("SymbolTable::current_scope") \
            and strip_transparent(rn[2][1]) == ("arg", 2, "name") and not any(c[0] == "switch" for c in psn[0].conds)
        R.ob("C19.4-current-scope-only", "current_scope_contains_name == current_scope().contains_name(name)", okn, cscn.at, f"{len(psn)} path(s); value {show(rn)[:100] if rn else None}")
        cs = prog.body(M + "SymbolTable::current_scope")
        if cs:
            ps = [p for p in SymExec(prog, cs).paths() if "__diverged__" not in p.env]
            r = strip_transparent(ps[0].env.get(0)) if len(ps) == 1 else None
            ok = False
            if r:
                # unwrap(last(deref(&self.stack)))
                chain = []
                t = r
                while isinstance(t, tuple) and t[0] == "call":
                    chain.append(t[1].split("::")[-1])
                    t = t[2][0]
                ok = "last" in chain and t == ("field", ("arg", 1, "self"), fields.index("scope_symbol_table_stack")) and not any(x in chain for x in ("first", "get", "iter"))
            R.ob("C19.4-current-scope-only", "current_scope=stack.last()", ok, cs.at, show(r) if r else "paths!=1")
    else:
        R.ob("ANCHOR", "current_scope_contains_name", False)

    # ---------------- C19.5 ids
    idx = prog.body("<oq3_semantics::symbols::SymbolTable as std::ops::Index<&oq3_semantics::symbols::SymbolId>>::index")
    if idx:
        ps = [p for p in SymExec(prog, idx).paths() if "__diverged__" not in p.env]
        r = strip_transparent(ps[0].env.get(0)) if len(ps) == 1 else None
        ok = bool(r) and r[0] == "call" and r[1].endswith("Index<I>>::index") and r[2][0] == ("field", ("arg", 1, "self"), fields.index("all_symbols")) and r[2][1] == ("field", ("arg", 2, "symbol_id"), 0)
        R.ob("C19.5-index", "Index<&SymbolId>", ok, idx.at, show(r) if r else "")
    else:
        R.ob("ANCHOR", "Index<&SymbolId> for SymbolTable", False)
    allowed_ctor = {M + "SymbolId::new": "const 0", M + "SymbolTable::gates::{closure#0}": "enumerate index of all_symbols", M + "SymbolTable::hardware_qubits::{closure#0}": "enumerate index of all_symbols"}
    n = 0
    for k, b in prog.bodies.items():
        for bi, si, s_ in b.stmts_with_pos():
            if s_["k"] == "assign" and s_["rv"]["k"] == "agg" and norm(s_["rv"].get("adt", "")) == SID:
                n += 1
                if is_derive(b):
                    continue
                ok = b.npath in allowed_ctor
                det = allowed_ctor.get(b.npath, "")
                if ok and "closure" in b.npath:
                    # the wrapped number is the enumerate() index: field 0 of the closure's tuple argument
                    o = origins(prog, b, s_["rv"]["fields"][0])
                    ok = all(x[0] == "arg" for x in o) and bool(o)
                    det += f" origins={sorted(o)}"
                R.ob("C19.5-id-construction", b.npath, ok, s_["at"], f"SymbolId constructed in {b.npath} ({det}); ids may come only from the counter or from enumerating all_symbols")
    R.floor("SymbolId constructions", n, 3)
    for fn_ in ("gates", "hardware_qubits"):
        b = prog.body(M + "SymbolTable::" + fn_)
        if not b:
            R.ob("ANCHOR", fn_, False)
            continue
        ps = [p for p in SymExec(prog, b).paths() if "__diverged__" not in p.env]
        ok = False
        det = ""
        for p in ps:
            for c in p.calls:
                if c[0].endswith("Iterator::enumerate"):
                    t = c[1][0]
                    chain = []
                    while isinstance(t, tuple) and t[0] == "call":
                        chain.append(t[1].split("::")[-1])
                        t = t[2][0]
                    ok = t == ("field", ("arg", 1, "self"), fields.index("all_symbols")) and "rev" not in chain and "skip" not in chain
                    det = f"enumerate over {show(c[1][0])}"
        R.ob("C19.5-id-construction", f"{fn_}: enumerate(all_symbols.iter())", ok, b.at, det)

    # ---------------- C19.6 built-ins
    want_consts = ["pi", "π", "euler", "ℇ", "tau", "τ"]
    se = SymExec(prog, new, max_visits=2)
    paths = [p for p in se.paths() if "__diverged__" not in p.env and "__cut__" not in p.env]
    ok_arr = ok_ty = ok_u = ok_first = False
    det = ""
    for p in paths:
        calls = [c for c in p.calls]
        if calls and calls[0][0] == M + "SymbolId::new":
            pass
        names = [c[0] for c in calls]
        if ent.npath in names:
            e = calls[names.index(ent.npath)]
            binds = [i for i, c in enumerate(calls) if c[0] == nbind.npath]
            ok_first = e[1][1] == ("adt", M + "ScopeType::Global", ()) and all(names.index(ent.npath) < i for i in binds) and names.count(ent.npath) == 1
        for c in calls:
            if c[0] == "std::array::iter::into_iter" or c[0].endswith("into_iter"):
                a = c[1][0]
                if a[0] == "tuple":
                    got = [x[2] if x[0] == "c" else None for x in a[1]]
                    if got == want_consts:
                        ok_arr = True
                    det += f" consts={got}"
        bcalls = [c for c in calls if c[0] == nbind.npath]
        for c in bcalls:
            nm, ty = c[1][1], c[1][2]
            if nm == ("c", "&str", "U"):
                ok_u = ty == ("adt", "oq3_semantics::types::Type::Gate", (("c", "usize", 3), ("c", "usize", 1)))
                det += f" U:{show(ty)}"
            else:
                if ty == ("adt", "oq3_semantics::types::Type::Float", (("adt", "std::option::Option::Some", (("c", "u32", 64),)), ("adt", "oq3_semantics::types::IsConst::True", ()))):
                    src = strip_transparent(nm)
                    ok_ty = src[0] == "field" and src[1][0] == "call" and src[1][1].endswith("Iterator>::next")
                det += f" const-type:{show(ty)}"
    R.ob("C19.6-builtins", "global-scope-first", ok_first, new.at, "enter_scope(Global) precedes every binding in new()")
    R.ob("C19.6-builtins", "constant-names", ok_arr, new.at, det)
    R.ob("C19.6-builtins", "constant-type Float(Some(64), const)", ok_ty, new.at, det)
    R.ob("C19.6-builtins", "U: Gate(3,1)", ok_u, new.at, det)
    # enter_scope pushes a fresh table of the requested type
    for p in SymExec(prog, ent).paths():
        if "__diverged__" in p.env:
            continue
        push = [c for c in p.calls if c[0].endswith("Vec::push")]
        ok = len(push) == 1 and push[0][1][0] == ("field", ("arg", 1, "self"), fields.index("scope_symbol_table_stack")) and push[0][1][1][:3] == ("call", M + "ScopeSymbolTable::new", (("arg", 2, "scope_type"),))
        R.ob("C19.2-enter-pushes-fresh", "enter_scope:" + str(len(p.trace)), ok, ent.at, f"{[show(a) for a in push[0][1]] if push else None}")
    sstnew = prog.body(M + "ScopeSymbolTable::new")
    if sstnew:
        ps = [p for p in SymExec(prog, sstnew).paths() if "__diverged__" not in p.env]
        r = ps[0].env.get(0) if len(ps) == 1 else None
        ok = bool(r) and r[0] == "adt" and r[2][0][0] == "call" and r[2][0][1].endswith("HashMap::new") and r[2][1] == ("arg", 1, "scope_type")
        R.ob("C19.2-enter-pushes-fresh", "ScopeSymbolTable::new=empty map", ok, sstnew.at, show(r) if r else "")
