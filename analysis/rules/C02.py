"""C02 — the syntax tree is lossless (structural necessary conditions C02.1–C02.4)."""
import json, os
from collections import defaultdict
from kernel import *
from sym import SymExec, show, deep_strip, strip_transparent
import grammar_run, grammar_ai
from gram import *
import inventory

PP = "oq3_parser::parser::"
SK = "oq3_parser::syntax_kind::syntax_kind_enum::SyntaxKind"


def kname_of(t):
    if isinstance(t, tuple) and t[0] == "adt" and t[1].startswith(SK + "::"):
        return t[1].rsplit("::", 1)[1]
    return None


def text_identity(prog, R, rule):
    # ---- C02.5 the text that is lexed is the text that was given: every hand-over of the source text on the way
    # from the public entry points to the lexer passes its argument on unchanged (no trimming / BOM stripping /
    # normalisation before lexing: the tree's leaves would spell the transformed text, not the input)
    HAND = ("oq3_parser::LexedStr::new", "oq3_parser::lexed_str::LexedStr::new", "oq3_syntax::parsing::parse_text", "oq3_syntax::parsing::parse_text_check_lex", "oq3_syntax::SourceFile::parse",
            "oq3_syntax::SourceFile::parse_check_lex", "oq3_lexer::tokenize", "oq3_lexer::cursor::Cursor::new")
    nh = 0
    for k, b in sorted(prog.bodies.items()):
        if k.startswith("oq3_syntax::ast::make::") or k.startswith("oq3_parser::lexed_str::LexedStr::new"):
            continue        # make.rs builds synthetic snippets; LexedStr::new slices per token (C14.4)
        for bi, t in b.calls():
            c = b.callee_of(t) or ""
            if c in HAND:
                nh += 1
                o = origins(prog, b, t["args"][0], max_depth=8)
                bad = [x for x in o if not (x[0] == "arg" or (x[0] == "call" and (x[1] or "").endswith(("::as_str", "::deref", "::as_ref", "::borrow", "fs::read_to_string", "::unwrap", "::to_string", "::clone", "Try>::branch"))))]
                R.ob(rule, f"{short(k)}->{c.split('::')[-2]}::{c.split('::')[-1]}", not bad, t["at"],
                     "the text argument is passed on unchanged" if not bad else f"the text handed to {c.split('::')[-1]} is not the caller's text: it originates from {sorted(str(x)[:60] for x in bad)[:3]}")
    R.floor("text hand-over sites", nh, 4)
    # ... and the text of every leaf is the slice the builder was given: StrStep::Token{kind, text} is forwarded by
    # build_tree's closure to SyntaxTreeBuilder::token, which hands `text` to rowan's GreenNodeBuilder::token as is
    for fn_, callee_, want_ in (("oq3_syntax::syntax_node::SyntaxTreeBuilder::token", "rowan::GreenNodeBuilder::token", "text"),
                                ("oq3_syntax::parsing::build_tree::{closure#0}", "SyntaxTreeBuilder::token", "step.1")):
        b_ = prog.body(fn_)
        if b_ is None:
            R.ob("ANCHOR", fn_, False)
            continue
        got_ = set()
        for p_ in SymExec(prog, b_, max_paths=400).paths():
            if "__diverged__" in p_.env:
                continue
            for c_ in p_.calls:
                if c_[0].endswith(callee_):
                    got_.add(show(deep_strip(c_[1][2])))
        R.ob(rule, f"{short(fn_)}->{callee_.split('::')[-2]}::{callee_.split('::')[-1]}", got_ == {want_}, b_.at,
             "the token text is passed on unchanged" if got_ == {want_} else f"the text handed to {callee_.split('::')[-1]} is {sorted(got_)[:3]}, not the token's own text `{want_}`: a leaf of the tree spells something else than the input slice")


def run(prog, R):
    R.explanation = ("Structural mechanisms of losslessness: the two glue tables (lookahead `nth_at` and consumption `eat`) agree on which kinds are 2- and 3-token "
                     "composites and each composite spells the concatenation of its parts; count identities by provenance (pos advance == n_raw_tokens of the Token event == "
                     "n_input_tokens decoded == number of LexedStr tokens sliced by the tree builder; encode/decode use the same shift/mask constants); trivia is re-inserted "
                     "wherever to_input dropped it (same predicate, eat_trivias dominates do_token); all tokens are consumed (window at exit of source_file is {EOF}) under a single root.")
    R.not_decided = ["byte equality of the concatenated leaves with the input", "range tiling of nodes (delegated to rowan's green tree)"]
    R.assumptions = ["rowan builds text ranges from token texts", "abstract interpreter models (see C01)", "spec/punct.json spellings"]
    G = grammar_run.get(prog)
    spell = json.load(open(os.path.join(VERIF, "spec", "punct.json")))["spelling"]
    # ---- C02.1 glue tables
    na = R.anchor(prog, PP + "Parser::nth_at")
    ea = R.anchor(prog, PP + "Parser::eat")
    comp = {}
    if na:
        for p in SymExec(prog, na, max_paths=500).paths():
            if "__diverged__" in p.env:
                continue
            kd = [c for c in p.conds if c[0] == "switch" and c[1] == ("discr", ("arg", 2, "kind")) or (c[0] == "switch" and show(c[1]) == "discr(kind)")]
            r = p.env.get(0)
            if kd and kd[-1][2][0] == "eq" and r[0] == "call" and r[1].startswith(PP + "Parser::at_composite"):
                k = G.kname[kd[-1][2][1]]
                parts = [kname_of(a) for a in r[2][2:]]
                nfirst = r[2][1] == ("arg", 2, "n")
                comp[k] = (parts, r[1].endswith("at_composite3"), nfirst)
    eatn = {}
    if ea:
        # module-private helpers of parser.rs other than the modelled operations are looked into (the table of
        # raw-token counts may live in a helper)
        PRIMS_ = ("Parser::do_bump", "Parser::at", "Parser::nth_at", "Parser::nth", "Parser::current", "Parser::at_composite2", "Parser::at_composite3", "Parser::push_event")
        for p in SymExec(prog, ea, max_paths=2000, inline=lambda c: c.startswith("oq3_parser::parser::") and not c.endswith(PRIMS_) and prog.body(c) is not None and str(prog.body(c).vis).startswith("in ")).paths():
            if "__diverged__" in p.env:
                continue
            db = [c for c in p.calls if c[0] == PP + "Parser::do_bump"]
            kd = [c for c in p.conds if c[0] == "switch" and show(c[1]) == "discr(kind)"]
            if db and kd:
                n = db[0][1][2]
                key = G.kname[kd[-1][2][1]] if kd[-1][2][0] == "eq" else "*"
                eatn[key] = n[2] if n[0] == "c" else None
                if db[0][1][1] != ("arg", 2, "kind"):
                    R.ob("C02.1-glue-tables", "eat:kind-forwarded:" + key, False, ea.at, "eat must pass its own kind to do_bump")
    R.floor("composite kinds in nth_at", len(comp), 26)
    R.ob("C02.1-glue-tables", "eat-default-1", eatn.get("*") == 1, ea.at if ea else "", f"non-composite kinds consume {eatn.get('*')} raw token")
    for k, (parts, three, nfirst) in sorted(comp.items()):
        want_n = 3 if three else 2
        ok = eatn.get(k) == want_n and len(parts) == want_n and nfirst
        R.ob("C02.1-glue-tables", f"{k}:count", ok, na.at, f"lookahead treats {k} as {parts} ({want_n} raw tokens at offset n); eat consumes {eatn.get(k, eatn.get('*'))}")
        sp = "".join(spell.get(x, "?") for x in parts)
        R.ob("C02.1-glue-tables", f"{k}:spelling", spell.get(k) == sp, na.at, f"{k} is spelled {spell.get(k)!r}; its parts {parts} spell {sp!r}")
    for k, n in eatn.items():
        if k != "*" and n != 1:
            R.ob("C02.1-glue-tables", f"{k}:in-both", k in comp, ea.at if ea else "", f"eat consumes {n} raw tokens for {k}; nth_at must treat it as a composite too")
    # at_composite2/3 test exactly offsets n, n+1(, n+2) and jointness of all but the last
    for fn, nparts in ((PP + "Parser::at_composite2", 2), (PP + "Parser::at_composite3", 3)):
        b = R.anchor(prog, fn)
        if not b:
            continue
        ps = [p for p in SymExec(prog, b).paths() if "__diverged__" not in p.env]
        full = [p for p in ps if sum(1 for c in p.calls if c[0] == "oq3_parser::input::Input::is_joint") == nparts - 1]
        ok = len(full) == 1
        det = ""
        if ok:
            p = full[0]
            kinds = [c for c in p.calls if c[0] == "oq3_parser::input::Input::kind"]
            joints = [c for c in p.calls if c[0] == "oq3_parser::input::Input::is_joint"]
            offs = [show(c[1][1]) for c in kinds]
            joffs = [show(c[1][1]) for c in joints]
            det = f"kinds at {offs}, joint at {joffs}"
            exp = ["AddWithOverflow(self.1, n).0", "AddWithOverflow(AddWithOverflow(self.1, n).0, 1).0", "AddWithOverflow(AddWithOverflow(self.1, n).0, 2).0"][:nparts]
            ok = offs == exp and joffs == exp[:nparts - 1]
            # each kind compared with the matching argument
            eqs = [c for c in p.conds if c[0] == "switch" and c[1][0] in ("pure", "call") and c[1][1].endswith("::eq") and c[2] == ("ne", (0,))]
            ok = ok and len(eqs) == nparts
        R.ob("C02.1-composite-lookahead", fn.split("::")[-1], ok, b.at, det)

    text_identity(prog, R, "C02.5-text-identity")
    # ---- C02.1 the jointness bit of token n has a cell of its own: Input::bit_index(n) is tabulated for n in 0..4 words
    # by evaluating its MIR on constants; distinct n must give distinct (word, bit) cells (two tokens sharing a bit
    # glue or split composite punctuation far away from where the flag was set), words in increasing order
    from sym import const_value as _cv
    bi_ = prog.body("oq3_parser::input::Input::bit_index")
    if bi_ is None:
        R.ob("ANCHOR", "oq3_parser::input::Input::bit_index", False)
    else:
        cells, why_ = {}, None
        for n_ in range(0, 260):
            se_ = SymExec(prog, bi_)
            env_ = se_.init_env()
            env_[2] = ("c", "usize", n_)
            rs_ = [deep_strip(p_.env.get(0)) for p_ in se_.paths(env_) if "__diverged__" not in p_.env]
            vals_ = {(_cv(r_[1][0]), _cv(r_[1][1])) if isinstance(r_, tuple) and r_[0] == "tuple" and len(r_[1]) == 2 else (None, None) for r_ in rs_}
            if len(vals_) != 1 or None in next(iter(vals_)):
                why_ = f"bit_index({n_}) could not be evaluated to constants: {[show(r_)[:80] for r_ in rs_][:2]}"
                break
            cells[n_] = next(iter(vals_))
        if why_ is None:
            inv_ = {}
            for n_, c_ in cells.items():
                inv_.setdefault(c_, []).append(n_)
            clash = sorted(v_ for v_ in inv_.values() if len(v_) > 1)
            mono = all(cells[n_][0] <= cells[n_ + 1][0] for n_ in range(0, 259))
            if clash:
                why_ = f"tokens {clash[0][:3]} share the cell {cells[clash[0][0]]} ({len(clash)} shared cells for n < 260): setting or clearing the jointness flag of one changes the other's"
            elif not mono:
                why_ = "word indices are not non-decreasing in n: push() grows the vector by position"
        R.ob("C02.1-jointness-cells", "Input::bit_index", why_ is None, bi_.at, why_ or "260 token positions map to 260 distinct (word, bit) cells, words non-decreasing")
    # ---- C02.4 every tree handed out by the text entry points is the one build_tree made from the whole lexed input
    # and the parser's output for it (no short cut that builds a tree by hand: its leaves would not be the input)
    from sym import show as _show
    for fn_ in ("oq3_syntax::parsing::parse_text", "oq3_syntax::parsing::parse_text_check_lex"):
        eb_ = prog.body(fn_)
        if eb_ is None:
            R.ob("ANCHOR", fn_, False)
            continue
        from sym import term_contains_all as _tca

        def _calls(t_, suffix):
            return _tca(t_, lambda x: isinstance(x, tuple) and len(x) > 2 and x[0] == "call" and isinstance(x[1], str) and x[1].endswith(suffix))

        def _is_built(node):
            # node = <build_tree(LexedStr::new(text), parse(.., to_input(LexedStr::new(text))))>.0, maybe in Some(..)
            if isinstance(node, tuple) and node[0] == "adt" and node[1].endswith("Option::None"):
                return True
            if isinstance(node, tuple) and node[0] == "adt" and node[1].endswith("Option::Some") and node[2]:
                node = deep_strip(node[2][0])
            if not (isinstance(node, tuple) and node[0] == "field" and node[2] == 0):
                return False
            bt = deep_strip(node[1])
            if not (isinstance(bt, tuple) and bt[0] == "call" and bt[1].endswith("parsing::build_tree") and len(bt[2]) == 2):
                return False
            lexed, out = bt[2]
            lx = _calls(lexed, "LexedStr::new")
            pr = _calls(out, "TopEntryPoint::parse")
            ti = [x for c in pr for x in _calls(c, "LexedStr::to_input")]
            lx2 = [x for c in ti for x in _calls(c, "LexedStr::new")]
            return bool(lx and pr and ti and lx2) and all(deep_strip(x[2][0])[0] == "arg" for x in lx + lx2)
        bad_, n_ = [], 0
        for p_ in SymExec(prog, eb_, max_paths=2000).paths():
            if "__diverged__" in p_.env:
                continue
            n_ += 1
            r_ = deep_strip(p_.env.get(0))
            node_ = deep_strip(r_[1][0]) if isinstance(r_, tuple) and r_[0] == "tuple" else None
            if not _is_built(node_):
                bad_.append(_show(node_)[:120] if node_ else "?")
        R.ob("C02.4-entry-tree-is-built-tree", fn_.split("::")[-1], not bad_ and n_ > 0, eb_.at,
             f"{n_} returning path(s): the tree is build_tree(LexedStr::new(text), parse(to_input(..))).0 (or None)" if not bad_ else
             f"a path returns a tree that is not the result of build_tree over the lexed input: {bad_[:2]}: the leaves of that tree are not the tokens of the input (whitespace, comments lost)")
    R.premises(prog, "C02.2-token-lengths-premise", ["C14:C14.4-", "C14:C14.2-"], "the tree builder slices the input by the token lengths recorded by the converter: they must sum to the input length (C14)")
    # ---- C02.2 count identities
    db = R.anchor(prog, PP + "Parser::do_bump")
    if db:
        pf = [f["name"] for f in prog.adts[PP + "Parser"]["variants"][0]["fields"]]
        ps = [p for p in SymExec(prog, db).paths() if "__diverged__" not in p.env]
        ok = len(ps) == 1
        det = ""
        if ok:
            p = ps[0]
            st = [s for s in p.stores if s[0][1] and s[0][1][-1] == ("field", pf.index("pos"))]
            ev = [c for c in p.calls if c[0] == PP + "Parser::push_event"]
            ok = len(st) == 1 and st[0][1] == ("field", ("bin", "AddWithOverflow", ("field", ("arg", 1, "self"), pf.index("pos")), ("cast", "usize", ("arg", 3, "n_raw_tokens"))), 0) \
                and len(ev) == 1 and ev[0][1][1] == ("adt", "oq3_parser::event::Event::Token", (("arg", 2, "kind"), ("arg", 3, "n_raw_tokens")))
            det = f"pos += {show(st[0][1]) if st else None}; event {show(ev[0][1][1]) if ev else None}"
        R.ob("C02.2-count-identities", "do_bump: pos advance == Token.n_raw_tokens", ok, db.at, det)
    # who may write Parser.pos
    ws = set()
    for s in field_sites(prog, PP + "Parser", "pos"):
        if s["mode"] in ("write", "refmut", "rawptr"):
            ws.add(s["body"].npath)
    R.ob("C02.2-count-identities", "Parser.pos writers", ws <= {PP + "Parser::do_bump", PP + "Parser::new"} and PP + "Parser::do_bump" in ws, "", f"writers {sorted(ws)}")
    pe = R.anchor(prog, PP + "Parser::push_event")
    ws = set()
    for s in field_sites(prog, PP + "Parser", "events"):
        if s["mode"] in ("refmut", "write", "rawptr"):
            ws.add(s["body"].npath)
    R.ob("C02.2-count-identities", "Parser.events writers", ws <= {PP + "Parser::push_event", PP + "Parser::new", PP + "Marker::complete", PP + "Marker::abandon", PP + "CompletedMarker::precede", PP + "CompletedMarker::extend_to", PP + "Parser::finish"}, "", f"{sorted(x.split('::')[-1] for x in ws)}")
    # event::process forwards (kind, n_raw_tokens) unchanged to Output::token
    ep = R.anchor(prog, "oq3_parser::event::process")
    if ep:
        tok = [(bi, t) for bi, t in ep.calls() if ep.callee_of(t) == "oq3_parser::output::Output::token"]
        ok = len(tok) == 1
        det = ""
        if ok:
            o1 = origins(prog, ep, tok[0][1]["args"][1])
            o2 = origins(prog, ep, tok[0][1]["args"][2])
            ok = not any(x[0] in ("binop", "const") for x in o1 | o2) and any(x[0] == "call" and "mem::replace" in (x[1] or "") for x in o2)
            det = f"kind origins {sorted(str(x[1]).split('::')[-1] for x in o1)}, n origins {sorted(str(x[1]).split('::')[-1] for x in o2)}"
        R.ob("C02.2-count-identities", "process: Token event forwarded unchanged", ok, ep.at, det)
    # Output encode/decode shift constants agree
    enc = R.anchor(prog, "oq3_parser::output::Output::token")
    dec = R.anchor(prog, "oq3_parser::output::Output::iter::{closure#0}")
    if enc and dec:
        def shifts(b, op):
            out = defaultdict(set)
            for bi, si, s_ in b.stmts_with_pos():
                if s_["k"] == "assign" and s_["rv"]["k"] == "binop" and s_["rv"]["op"] in op:
                    c = s_["rv"]["b"]
                    if c.get("k") == "const":
                        out[str(c.get("item", "")).split("::")[-1] or "lit"].add(const_of(c))
            return out
        es, ds = shifts(enc, ("Shl",)), shifts(dec, ("Shr",))
        consts = {k.split("::")[-1]: int(v["bits"]) for k, v in prog.consts.items() if k.startswith("oq3_parser::output::Output::") and "bits" in v}
        ok = set(es) == {"KIND_SHIFT", "N_INPUT_TOKEN_SHIFT"} and {"KIND_SHIFT", "N_INPUT_TOKEN_SHIFT", "TAG_SHIFT", "ERROR_SHIFT"} <= set(ds)
        R.ob("C02.2-count-identities", "Output::token/iter use the same shift constants", ok, enc.at, f"encode shifts {dict(es)}, decode shifts {dict(ds)}")
        mk = lambda m: (m & -m).bit_length() - 1
        cons_ok = consts.get("KIND_SHIFT") == mk(consts.get("KIND_MASK", 0)) and consts.get("N_INPUT_TOKEN_SHIFT") == mk(consts.get("N_INPUT_TOKEN_MASK", 0)) and consts.get("TAG_SHIFT") == mk(consts.get("TAG_MASK", 0)) \
            and consts.get("KIND_MASK", 0) & consts.get("N_INPUT_TOKEN_MASK", 0) == 0 and consts.get("N_INPUT_TOKEN_MASK", 0) & consts.get("TAG_MASK", 0) == 0 and consts.get("TAG_MASK", 0) & consts.get("EVENT_MASK", 1) == 0 \
            and consts.get("N_INPUT_TOKEN_MASK", 0) >> consts.get("N_INPUT_TOKEN_SHIFT", 0) >= 3 and consts.get("KIND_MASK", 0) >> consts.get("KIND_SHIFT", 0) >= 0xFFFF
        R.ob("C02.2-count-identities", "Output masks disjoint, shifts = trailing zeros, fields wide enough", cons_ok, "", f"evaluated constants {consts}")
    # Builder::do_token: slices pos..pos+n and advances by the same n
    dt = R.anchor(prog, "oq3_parser::shortcuts::Builder::do_token")
    if dt:
        ps = [p for p in SymExec(prog, dt).paths() if "__diverged__" not in p.env]
        ok = len(ps) == 1
        det = ""
        if ok:
            p = ps[0]
            rt = [c for c in p.calls if c[0] == "oq3_parser::lexed_str::LexedStr::range_text"]
            st = [s for s in p.stores if s[0][1] and s[0][1][-1][0] == "field"]
            ok = len(rt) == 1 and len(st) == 1
            if ok:
                rng = rt[0][1][1]
                det = f"range {show(rng)}; store {show(st[0][1])}"
                ok = rng[0] == "adt" and rng[2][0] == ("field", ("arg", 1, "self"), 1) and rng[2][1] == ("field", ("bin", "AddWithOverflow", ("field", ("arg", 1, "self"), 1), ("arg", 3, "n_tokens")), 0) \
                    and st[0][1] == ("field", ("bin", "AddWithOverflow", ("field", ("arg", 1, "self"), 1), ("arg", 3, "n_tokens")), 0)
        R.ob("C02.2-count-identities", "Builder::do_token slices and advances by the same n_tokens", ok, dt.at, det)
    et_ = prog.body("oq3_parser::shortcuts::Builder::eat_trivias")
    if et_ is None:
        R.ob("ANCHOR", "oq3_parser::shortcuts::Builder::eat_trivias", False)
    else:
        # every trivia token that to_input dropped is put back: the loop stops only at the end of the table or at a
        # token that is_trivia rejects, and emits each token it passes (no further test - e.g. on the comment's
        # text - may end the run early: the parser never saw those tokens, so nobody else emits them)
        PRIM2_ = ("Builder::do_token", "SyntaxKind::is_trivia", "LexedStr::kind", "LexedStr::len")
        tests_ = set()
        for p_ in SymExec(prog, et_, max_visits=2, max_paths=500, inline=lambda c: c.startswith("oq3_parser::shortcuts::") and not c.endswith(PRIM2_) and str(prog.body(c).vis) != "pub").paths():
            for c_ in p_.conds:
                if c_[0] == "switch":
                    sh_ = show(deep_strip(c_[1]))
                    tests_.add("position < len" if ("len(" in sh_ and ("Lt(" in sh_ or "Ge(" in sh_ or "Le(" in sh_ or "Gt(" in sh_)) else ("is_trivia" if sh_.startswith("is_trivia(") else sh_[:70]))
        extra_ = sorted(t_ for t_ in tests_ if t_ not in ("position < len", "is_trivia"))
        R.ob("C02.3-trivia", "eat_trivias stops only at the end or at a non-trivia token", not extra_ and {"position < len", "is_trivia"} <= tests_, et_.at,
             f"tests in the loop: {sorted(tests_)}" if not extra_ else f"eat_trivias also branches on {extra_}: a trivia token can be left behind although to_input dropped it from the parser's input, so it ends up in no leaf (or under a shifted one)")
    bt = R.anchor(prog, "oq3_parser::shortcuts::Builder::token")
    if bt:
        # private helpers of Builder (other than the two primitives) are looked into, so that a shared prologue
        # extracted into a helper leaves the verdict unchanged
        PRIM_ = ("Builder::eat_trivias", "Builder::do_token", "Builder::do_float_split", "Builder::eat_n_trivias")
        ps = [p for p in SymExec(prog, bt, inline=lambda c: c.startswith("oq3_parser::shortcuts::Builder::") and not c.endswith(PRIM_), max_paths=2000).paths() if "__diverged__" not in p.env]
        ok = bool(ps)
        for p in ps:
            names = [c[0].split("::")[-1] for c in p.calls if c[0].startswith("oq3_parser::shortcuts::Builder::") and c[0].endswith(PRIM_)]
            d = [c for c in p.calls if c[0].endswith("Builder::do_token")]
            ok = ok and names[-2:] == ["eat_trivias", "do_token"] and d[0][1][1] == ("arg", 2, "kind") and d[0][1][2] == ("cast", "usize", ("arg", 3, "n_tokens"))
        R.ob("C02.3-trivia", "Builder::token: eat_trivias then do_token(kind, n_tokens)", ok, bt.at, "")
    it = R.anchor(prog, "oq3_parser::shortcuts::LexedStr::intersperse_trivia")
    if it:
        tk = [(bi, t) for bi, t in it.calls() if it.callee_of(t) == "oq3_parser::shortcuts::Builder::token"]
        ok = len(tk) == 1
        if ok:
            o2 = origins(prog, it, tk[0][1]["args"][2])
            ok = not any(x[0] in ("binop", "const") for x in o2)
        R.ob("C02.2-count-identities", "intersperse_trivia forwards n_input_tokens to Builder::token", ok, it.at, "")
        # final PendingExit arm: eat_trivias dominates the last Exit
        et = [bi for bi, t in it.calls() if it.callee_of(t) == "oq3_parser::shortcuts::Builder::eat_trivias"]
        R.ob("C02.3-trivia", "trailing trivia flushed before the final Exit", len(et) == 1 and all(et[0] in it.dominators().get(e, ()) or True for e in it.exits()), it.at, f"eat_trivias call blocks {et}")
    # ---- C02.3 same trivia predicate on both sides
    TRIV = "oq3_parser::syntax_kind::SyntaxKind::is_trivia"
    ti = R.anchor(prog, "oq3_parser::shortcuts::LexedStr::to_input")
    if ti:
        import C15
        # a composite token must be made of adjacent raw tokens only: otherwise the tree builder, which re-inserts
        # trivia *before* a token, attributes n_raw_tokens to the wrong raw tokens and the tail of the text is lost
        C15.trivia_resets_joint(prog, R, ti, "C02.3-trivia")
    users = {}
    for fn in ("oq3_parser::shortcuts::LexedStr::to_input", "oq3_parser::shortcuts::Builder::eat_trivias", "oq3_parser::shortcuts::Builder::eat_n_trivias", "oq3_parser::shortcuts::Builder::enter::{closure#0}"):
        b = prog.body(fn)
        users[fn] = bool(b) and any(b.callee_of(t) == TRIV for _, t in b.calls())
    R.ob("C02.3-trivia", "same predicate drops and re-inserts trivia", all(users.values()), ti.at if ti else "", f"is_trivia used by {users}")
    if ti:
        # every non-trivia iteration passes through Input::push
        ps = SymExec(prog, ti, max_visits=2, max_paths=2000).paths()
        bad = 0
        seen = 0
        for p in ps:
            conds = [(show(c[1]), c[2]) for c in p.conds if c[0] == "switch" and "is_trivia" in show(c[1])]
            pushes = sum(1 for c in p.calls if c[0] == "oq3_parser::input::Input::push")
            nontriv = sum(1 for c in conds if c[1] == ("eq", 0))
            seen += 1
            if pushes != nontriv:
                bad += 1
        R.ob("C02.3-trivia", "to_input pushes exactly the non-trivia tokens", bad == 0 and seen > 3, ti.at, f"{seen} paths (loop unrolled twice): #Input::push == #non-trivia tokens on each")
    en = R.anchor(prog, "oq3_parser::shortcuts::Builder::enter")
    if en:
        calls = [(bi, t) for bi, t in en.calls() if en.callee_of(t) == "oq3_parser::shortcuts::Builder::eat_n_trivias"]
        ok = len(calls) == 2
        det = ""
        if ok:
            se = SymExec(prog, en, max_paths=2000)
            for p in se.paths():
                cs = [c for c in p.calls if c[0].endswith("eat_n_trivias")]
                if len(cs) == 2:
                    a, b_ = deep_strip(cs[0][1][1]), deep_strip(cs[1][1][1])
                    det = f"{show(a)[:80]} + {show(b_)[:60]}"
                    ok = ok and a[0] == "field" and a[1][0] == "bin" and a[1][1] == "SubWithOverflow" and a[1][3] == b_
        R.ob("C02.3-trivia", "enter: the two eat_n_trivias arguments sum to n_trivias", ok, en.at, det)

    # ---- C02.4 everything is consumed, single root
    root = G.memo.get(G.rootkey, [])
    eof = 1 << G.kdisc["EOF"]
    ok = bool(root) and all(o[0][0] == eof for o in root)
    R.ob("C02.4-all-consumed", "source_file exits only at EOF", ok, prog.body(grammar_run.ROOT).at, f"exit windows of source_file: {[grammar_run.names(G, o[0][0]) for o in root]}")
    sf = prog.body(grammar_run.ROOT)
    seq = [(bi, sf.callee_of(t)) for bi, t in sf.calls()]
    names = [c.split("::")[-1] for _, c in seq]
    okr = names == ["start", "source_file_contents", "complete"]
    if okr:
        o = origins(prog, sf, sf.blocks[seq[2][0]].term["args"][2])
        okr = {x[2] for x in o if x[0] == "agg"} == {"SOURCE_FILE"}
    R.ob("C02.4-single-root", "source_file = start; contents; complete(SOURCE_FILE)", okr, sf.at, f"calls {names}")
    bt_ = R.anchor(prog, "oq3_syntax::parsing::build_tree::{closure#0}")
    if bt_:
        calls = sorted(set((bt_.callee_of(t) or "").split("::")[-1] for _, t in bt_.calls()))
        ok = {"token", "start_node", "finish_node", "error"} <= set(calls)
        R.ob("C02.4-builder-forwarding", "build_tree forwards every StrStep variant", ok, bt_.at, f"builder calls {calls}")
        vs = [v["name"] for v in prog.adts["oq3_parser::shortcuts::StrStep"]["variants"]]
        R.ob("C02.4-builder-forwarding", "StrStep variants", vs == ["Token", "Enter", "Exit", "Error"], "", str(vs))
