"""C20 — type promotion is a join on the numeric tower and never narrows.

Decision tables of promote_*/can_cast_literal/... are obtained by abstract
evaluation of their MIR over the finite abstract domain
   Type constructor x {no width, Some(v)} x {const, non-const}   (v symbolic)
and the join laws are checked on every row (DESIGN.md C20.1–C20.5).
"""
from kernel import *
from sym import SymExec, show, strip_transparent, deep_strip

T = "oq3_semantics::types::"
TY = T + "Type"
TOWER = {"Int": 0, "UInt": 0, "Float": 1, "Complex": 2}
NONE = ("adt", "std::option::Option::None", ())
KT = ("adt", T + "IsConst::True", ())
KF = ("adt", T + "IsConst::False", ())


def abstract_types(prog, vname, tag):
    """All abstract values of Type::<vname>: list of (label, term)."""
    a = prog.adts[TY]
    v = [v for v in a["variants"] if v["name"] == vname][0]
    alts = [("", ())]
    for i, f in enumerate(v["fields"]):
        ft = f["ty"]
        if "Option<u32>" in ft:
            choices = [("w-", NONE), ("w" + tag, ("adt", "std::option::Option::Some", (("sym", "v" + tag),)))]
        elif ft.endswith("IsConst"):
            choices = [("c", KT), ("m", KF)]
        else:
            choices = [("", ("sym", f"f{i}{tag}"))]
        alts = [(l + (("," + cl) if cl else ""), fs + (ct,)) for (l, fs) in alts for (cl, ct) in choices]
    return [(vname + ("[" + l.strip(",") + "]" if l else ""), ("adt", TY + "::" + vname, fs)) for l, fs in alts]


def inline_types(cal):
    return cal.startswith(T) or cal.startswith("<" + T)


_cache = {}


def evaluate(prog, fn, args):
    key = (fn, args)
    if key in _cache:
        return _cache[key]
    b = prog.body(fn)
    se = SymExec(prog, b, inline=inline_types, max_paths=5000)
    env = {i + 1: a for i, a in enumerate(args)}
    outs = []
    for p in se.paths(env):
        div = "__diverged__" in p.env or "__cut__" in p.env
        conds = {}
        for c in p.conds:
            if c[0] == "switch":
                val = c[2]
                truth = (val == ("ne", (0,))) if val[0] == "ne" else (val[1] != 0)
                conds[show(c[1])] = truth
        outs.append((tuple(sorted(conds.items())), None if div else deep_strip(p.env.get(0)), div))
    if se.truncated:
        outs.append(((("TRUNCATED", True),), None, True))
    _cache[key] = outs
    return outs


def ctor(t):
    if isinstance(t, tuple) and t[0] == "adt" and t[1].startswith(TY + "::"):
        return t[1].rsplit("::", 1)[1]
    return None


def tfields(prog, t):
    """(width term or 'n/a', const bool or None) of a Type term."""
    c = ctor(t)
    v = [v for v in prog.adts[TY]["variants"] if v["name"] == c][0]
    w, k = "n/a", None
    for f, x in zip(v["fields"], t[2]):
        if "Option<u32>" in f["ty"]:
            w = x
        elif f["ty"].endswith("IsConst"):
            k = True if x == KT else (False if x == KF else x)
    return w, k


def wsubst(w, eqv):
    """Normalise a width term under v1==v2."""
    if eqv:
        s = repr(w).replace("'v2'", "'v1'")
        w = eval(s)
        # max(v1,v1) = v1
        if isinstance(w, tuple) and w[0] == "adt" and w[2] and w[2][0][0] == "pure" and w[2][0][1] == "max" and w[2][0][2][0] == w[2][0][2][1]:
            w = ("adt", w[1], (w[2][0][2][0],))
    return w


def width_ge(res_w, op_w, eqv):
    """res_w >= op_w in the order: None above every width; Some(max(..)) >= its arguments; Some(v) >= Some(v)."""
    res_w, op_w = wsubst(res_w, eqv), wsubst(op_w, eqv)
    if res_w == NONE:
        return True
    if op_w == NONE:
        return False
    if res_w == op_w:
        return True
    inner = res_w[2][0]
    if inner[0] == "pure" and inner[1] == "max" and op_w[2][0] in inner[2]:
        return True
    return False


def run(prog, R):
    R.explanation = ("Decision tables of types.rs (promote_types, promote_types_not_equal, promote_type_width, promote_base_type, "
                     "promote_width, promote_constness, can_cast_literal, equal_up_to_constness, base_type, width, is_const) are derived by "
                     "abstract evaluation of their MIR over all pairs of abstract Type values (constructor x {no width, Some(v)} x "
                     "{const, non-const}, v symbolic) and the join laws are checked on every row.")
    R.not_decided = ["associativity over triples", "std::cmp::max on u32 is assumed to return the maximum"]
    R.assumptions = ["std::cmp::max returns the larger argument; #[derive(PartialEq)] is structural equality",
                     "the order of the property is read lexicographically: kind first (Int,UInt < Float < Complex), width compared within one kind"]
    for f in ("promote_types", "promote_type_width", "promote_base_type", "promote_width", "promote_constness", "can_cast_literal", "equal_up_to_constness", "equal_base_type", "Type::base_type", "Type::width", "Type::is_const", "promote_types_not_equal"):
        if not R.anchor(prog, T + f):
            return
    if TY not in prog.adts:
        R.ob("ANCHOR", "Type", False)
        return
    ctors = [v["name"] for v in prog.adts[TY]["variants"]]
    R.floor("Type constructors", len(ctors), 27)
    for c in TOWER:
        R.ob("ANCHOR", "Type::" + c, c in ctors)
    ic = prog.adts.get(T + "IsConst")
    R.ob("ANCHOR", "IsConst", bool(ic) and [v["name"] for v in ic["variants"]] == ["True", "False"])
    A = {c: abstract_types(prog, c, "1") for c in ctors}
    B = {c: abstract_types(prog, c, "2") for c in ctors}
    nvals = sum(len(v) for v in A.values())
    R.floor("abstract Type values", nvals, 44)

    def rows(fn, c1, c2=None):
        """all (label1, a, label2, b, conds, result, diverged)"""
        out = []
        for (l1, a) in A[c1]:
            if c2 is None:
                for conds, res, div in evaluate(prog, T + fn, (a,)):
                    out.append((l1, a, None, None, dict(conds), res, div))
            else:
                for (l2, b) in B[c2]:
                    for conds, res, div in evaluate(prog, T + fn, (a, b)):
                        out.append((l1, a, l2, b, dict(conds), res, div))
        return out

    def law(rule, key, bad, at, what):
        """one obligation per (law, constructor pair); failing rows listed in the detail"""
        R.ob(rule, key, not bad, at, what + (": failing rows " + "; ".join(bad[:6]) + (f" (+{len(bad)-6} more)" if len(bad) > 6 else "") if bad else ""))

    # ---- unary tables
    at_w, at_c, at_b = prog.body(T + "Type::width").at, prog.body(T + "Type::is_const").at, prog.body(T + "Type::base_type").at
    for c in ctors:
        bad = []
        for (l1, a, _, _, conds, res, div) in rows("Type::width", c):
            w, k = tfields(prog, a)
            want = NONE if w == "n/a" else w
            if div or conds or res != want:
                bad.append(f"{l1} -> {show(res)}")
        law("C20.2-width-table", c, bad, at_w, f"width({c}) returns the width field (None when the kind has none)")
        bad = []
        for (l1, a, _, _, conds, res, div) in rows("Type::is_const", c):
            w, k = tfields(prog, a)
            want = ("c", "bool", 1 if (k is None or k) else 0)
            if div or conds or res != want:
                bad.append(f"{l1} -> {show(res)}")
        law("C20.2-is_const-table", c, bad, at_c, f"is_const({c}) is the const flag (true when the kind has no flag)")
        bad = []
        for (l1, a, _, _, conds, res, div) in rows("Type::base_type", c):
            if div or conds or res != ("adt", T + "BaseType::" + c, ()):
                bad.append(f"{l1} -> {show(res)}")
        law("C20.4-base_type-injective", c, bad, at_b, f"base_type({c}) = BaseType::{c}")

    # ---- promote_width / promote_constness on tower pairs (they are used only there)
    at_pw, at_pc = prog.body(T + "promote_width").at, prog.body(T + "promote_constness").at
    for c1 in ctors:
        for c2 in ctors:
            bad_w, bad_c = [], []
            for (l1, a, l2, b, conds, res, div) in rows("promote_width", c1, c2):
                w1, _ = tfields(prog, a)
                w2, _ = tfields(prog, b)
                w1 = NONE if w1 == "n/a" else w1
                w2 = NONE if w2 == "n/a" else w2
                if w1 == NONE or w2 == NONE:
                    want = NONE
                else:
                    want = ("adt", "std::option::Option::Some", (("pure", "max", tuple(sorted((w1[2][0], w2[2][0]), key=repr))),))
                if div or conds or res != want:
                    bad_w.append(f"({l1},{l2}) -> {show(res)} expected {show(want)}")
            for (l1, a, l2, b, conds, res, div) in rows("promote_constness", c1, c2):
                _, k1 = tfields(prog, a)
                _, k2 = tfields(prog, b)
                both = (k1 is None or k1) and (k2 is None or k2)
                if div or conds or res != (KT if both else KF):
                    bad_c.append(f"({l1},{l2}) -> {show(res)}")
            law("C20.2-promote_width", f"{c1},{c2}", bad_w, at_pw, "None if either width is None else Some(max)")
            law("C20.2-promote_constness", f"{c1},{c2}", bad_c, at_pc, "const iff both operands const")

    # ---- promote_type_width / promote_base_type rows
    at_ptw, at_pbt = prog.body(T + "promote_type_width").at, prog.body(T + "promote_base_type").at
    for c1 in ctors:
        for c2 in ctors:
            bad = []
            for (l1, a, l2, b, conds, res, div) in rows("promote_type_width", c1, c2):
                if div or conds:
                    bad.append(f"({l1},{l2}) diverges/forks")
                    continue
                if c1 == c2 and c1 in ("Int", "UInt", "Float"):
                    pw = evaluate(prog, T + "promote_width", (a, b))[0][1]
                    pc = evaluate(prog, T + "promote_constness", (a, b))[0][1]
                    if res != ("adt", TY + "::" + c1, (pw, pc)):
                        bad.append(f"({l1},{l2}) -> {show(res)}")
                elif not (c1 == c2 and c1 in TOWER):
                    if ctor(res) != "Void":
                        bad.append(f"({l1},{l2}) -> {show(res)} expected Void")
            law("C20.2-promote_type_width", f"{c1},{c2}", bad, at_ptw, "same-kind pairs of Int/UInt/Float give K(promote_width, promote_constness); other pairs Void")
            bad = []
            for (l1, a, l2, b, conds, res, div) in rows("promote_base_type", c1, c2):
                if div or conds:
                    bad.append(f"({l1},{l2}) diverges/forks")
                    continue
                if c1 in TOWER and c2 in TOWER and TOWER[c1] != TOWER[c2]:
                    hi = b if TOWER[c2] > TOWER[c1] else a
                    if ctor(res) != ctor(hi) or tfields(prog, res)[0] != tfields(prog, hi)[0]:
                        bad.append(f"({l1},{l2}) -> {show(res)}")
                elif not (c1 in TOWER and c2 in TOWER):
                    if ctor(res) != "Void":
                        bad.append(f"({l1},{l2}) -> {show(res)} expected Void")
            law("C20.1-promote_base_type", f"{c1},{c2}", bad, at_pbt, "cross-kind pairs of the tower give the higher operand's kind and width; pairs outside the tower Void")
    # mirror: arms (a,b) and (b,a) agree
    for c1 in ctors:
        for c2 in ctors:
            bad = []
            for (l1, a) in A[c1]:
                for (l2, b) in B[c2]:
                    r1 = evaluate(prog, T + "promote_base_type", (a, b))
                    r2 = evaluate(prog, T + "promote_base_type", (b, a))
                    k1 = {(ctor(o[1]), repr(tfields(prog, o[1])[0]) if ctor(o[1]) else None) for o in r1}
                    k2 = {(ctor(o[1]), repr(tfields(prog, o[1])[0]) if ctor(o[1]) else None) for o in r2}
                    if k1 != k2:
                        bad.append(f"({l1},{l2}): {k1} vs {k2}")
            law("C20.1-mirror", f"{c1},{c2}", bad, at_pbt, "promote_base_type(a,b) and (b,a) give the same kind and width")

    # ---- C20.3 laws on promote_types
    for fn in ("promote_types",):
        at = prog.body(T + fn).at
        tag = "" if fn == "promote_types" else "/not_equal"
        for c1 in ctors:
            if fn == "promote_types":
                bad = []
                for (l1, a) in A[c1]:
                    outs = evaluate(prog, T + fn, (a, a))
                    if not outs or any(o[2] or o[1] != a for o in outs):
                        bad.append(f"{l1} -> {[show(o[1]) for o in outs]}")
                law("C20.3-idempotent", c1, bad, at, "promote_types(t,t) = t")
            for c2 in ctors:
                in_tower = c1 in TOWER and c2 in TOWER
                b_total, b_void, b_kind, b_width, b_const, b_sym, b_out = [], [], [], [], [], [], []
                allrows = rows(fn, c1, c2)
                R.count(fn + " rows", len(allrows))
                for (l1, a, l2, b, conds, res, div) in allrows:
                    tagrow = f"({l1},{l2}" + ("|" + ",".join(f"{k}={v}" for k, v in conds.items()) if conds else "") + ")"
                    if div:
                        b_total.append(tagrow)
                        continue
                    rc = ctor(res)
                    eqv = conds.get("eq(v1, v2)", False)
                    (w1, k1), (w2, k2) = tfields(prog, a), tfields(prog, b)
                    eq_types = c1 == c2 and (wsubst(w1, eqv) == wsubst(w2, eqv)) and all(conds.get(k, True) for k in conds if k.startswith("eq(f"))
                    if in_tower:
                        if rc == "Void":
                            b_void.append(tagrow)
                            continue
                        if not (rc in TOWER and TOWER[rc] >= max(TOWER[c1], TOWER[c2]) and (rc == c1 or TOWER[rc] > TOWER[c1]) and (rc == c2 or TOWER[rc] > TOWER[c2])):
                            b_kind.append(f"{tagrow}->{show(res)}")
                            continue
                        rw, rk = tfields(prog, res)
                        for (cx, wx) in ((c1, w1), (c2, w2)):
                            if cx == rc and not width_ge(rw, wx, eqv):
                                b_width.append(f"{tagrow}->{show(res)}")
                        if rk is True and not (k1 and k2):
                            b_const.append(f"{tagrow}->{show(res)}")
                    else:
                        if eq_types and fn == "promote_types":
                            if rc != c1:
                                b_out.append(f"{tagrow}->{show(res)} (equal types must give the type itself)")
                            else:
                                rw, rk = tfields(prog, res)
                                if rk is True and not ((k1 is None or k1) and (k2 is None or k2)):
                                    b_const.append(f"{tagrow}->{show(res)}")
                        elif rc != "Void":
                            b_out.append(f"{tagrow}->{show(res)} (no common type expected)")
                    # symmetry up to constness
                    outs2 = [o for o in evaluate(prog, T + fn, (b, a)) if all(dict(o[0]).get(k, v) == v for k, v in conds.items())]
                    for o in outs2:
                        r2 = o[1]
                        same = (not o[2]) and ctor(r2) == rc and (rc == "Void" or wsubst(tfields(prog, r2)[0], eqv) == wsubst(tfields(prog, res)[0], eqv))
                        if not same:
                            b_sym.append(f"{tagrow}: {show(res)} vs {show(r2)}")
                    if not outs2:
                        b_sym.append(f"{tagrow}: no matching row for swapped arguments")
                key = f"{c1},{c2}{tag}"
                law("C20.3-total", key, b_total, at, "promotion returns on every row")
                law("C20.3-void-iff-no-bound", key, b_void, at, f"{fn}({c1},{c2}): both kinds are in the tower Int,UInt < Float < Complex, so a common type exists; Void returned")
                law("C20.3-upper-bound-kind", key, b_kind, at, "result kind is an upper bound of both operand kinds")
                law("C20.3-upper-bound-width", key, b_width, at, "result width is >= the width of every operand of the result's kind ('no width' is the top)")
                law("C20.3-const-only-if-both", key, b_const, at, "result is const only if both operands are")
                law("C20.3-symmetric", key, b_sym, at, "symmetric in its arguments up to const-ness")
                law("C20.3-outside-tower", key, b_out, at, "outside the tower only equal types have a common type (the type itself)")

    # ---- sibling: promote_types_not_equal == promote_types wherever the operands are not equal up to constness
    at = prog.body(T + "promote_types_not_equal").at
    for c1 in ctors:
        for c2 in ctors:
            bad = []
            for (l1, a, l2, b, conds, res, div) in rows("promote_types_not_equal", c1, c2):
                eq = [o for o in evaluate(prog, T + "equal_up_to_constness", (a, b)) if all(dict(o[0]).get(k, v) == v for k, v in conds.items())]
                if any(o[1] == ("c", "bool", 1) for o in eq):
                    continue
                other = [o for o in evaluate(prog, T + "promote_types", (a, b)) if all(dict(o[0]).get(k, v) == v for k, v in conds.items())]
                if div or not other or any(o[1] != res for o in other):
                    bad.append(f"({l1},{l2}): {show(res)} vs {[show(o[1]) for o in other]}")
            law("C20.3-sibling-not_equal", f"{c1},{c2}", bad, at, "promote_types_not_equal agrees with promote_types on operands that are not equal up to constness")

    # ---- C20.4 can_cast_literal
    at = prog.body(T + "can_cast_literal").at
    for c1 in ctors:
        for c2 in ctors:
            b_nar, b_sup, b_tot, b_un = [], [], [], []
            for (l1, a, l2, b, conds, res, div) in rows("can_cast_literal", c1, c2):
                if div or conds or res not in (("c", "bool", 0), ("c", "bool", 1)):
                    b_tot.append(f"({l1},{l2})")
                    continue
                v = res[2] == 1
                if c1 in TOWER and c2 in TOWER:
                    if TOWER[c2] > TOWER[c1] and v:
                        b_nar.append(f"({l1},{l2})")
                    # superset of promotion into the target: promote_types(target, lit) has the target's kind
                    pk = {ctor(o[1]) for o in evaluate(prog, T + "promote_types", (a, b))}
                    if pk == {c1} and not v:
                        b_sup.append(f"({l1},{l2})")
                elif c1 == c2:
                    if not v:
                        b_sup.append(f"({l1},{l2})")
                elif v:
                    b_un.append(f"({l1},{l2})")
            key = f"{c1}<-{c2}"
            law("C20.4-can_cast_literal-total", key, b_tot, at, "a definite boolean on every row")
            law("C20.4-never-narrows", key, b_nar, at, "a float/complex literal is never castable into an integer target, nor complex into float")
            law("C20.4-superset-of-promotion", key, b_sup, at, "whenever promotion yields the target kind the literal is castable")
            law("C20.4-unrelated-kinds", key, b_un, at, "no literal cast between unrelated kinds")

    # ---- C20.5 equal_up_to_constness ignores exactly the const flag
    at = prog.body(T + "equal_up_to_constness").at
    for c1 in ctors:
        for c2 in ctors:
            bad = []
            for (l1, a, l2, b, conds, res, div) in rows("equal_up_to_constness", c1, c2):
                eqv = conds.get("eq(v1, v2)", None)
                (w1, k1), (w2, k2) = tfields(prog, a), tfields(prog, b)
                if c1 != c2:
                    want = 0
                else:
                    same_w = (w1 == w2) or (w1 != NONE and w2 != NONE and w1 != "n/a" and eqv is True)
                    if w1 != "n/a" and w1 != NONE and w2 != NONE and eqv is None and w1 != w2:
                        same_w = None
                    others = [v for k, v in conds.items() if k.startswith("eq(f")]
                    want = 1 if (same_w and all(others)) else 0
                    if same_w is None:
                        want = None
                if div or res not in (("c", "bool", 0), ("c", "bool", 1)) or (want is not None and res[2] != want):
                    bad.append(f"({l1},{l2}|{conds}) -> {show(res)} expected {want}")
            law("C20.5-equal_up_to_constness", f"{c1},{c2}", bad, at, "true iff same kind, same width and same dims; const flags ignored")
