"""C16 — statement parsing is compositional: the statement-position entry points agree."""
from kernel import *
from sym import SymExec
import grammar_run
from gram import *

ITEM, STMT = "oq3_parser::grammar::items::item", "oq3_parser::grammar::expressions::stmt"
WRAPPERS = {ITEM, STMT, "oq3_parser::grammar::items::opt_item", "oq3_parser::grammar::expressions::expr_block_statements", "oq3_parser::grammar::items::source_file_contents"}


def run(prog, R):
    R.explanation = ("Sibling agreement of the two statement-position entry points of the grammar (`item`: first statement at top level; `stmt`: block bodies, "
                     "single-statement bodies and everything after the first non-item statement), decided with the token-kind abstract interpreter: for every "
                     "first token kind (and for one-token statements the window `k ; ;`) both reach the same handler functions before consuming anything and agree on "
                     "whether a diagnostic is unavoidable; plus who-calls rules for the statement loops.")
    R.not_decided = ["equality of whole statement lists for all statement sequences (follows only informally from a single dispatch)"]
    R.assumptions = ["the abstract interpreter's hand models (see C01)"]
    G = grammar_run.get(prog)
    for f in (ITEM, STMT):
        R.anchor(prog, f)
    probes = sorted({pr for (fn, pr) in G.dispatch})
    R.floor("dispatch probes", len(probes), 150)
    by_first = {}
    for pr in probes:
        if len(pr) == 3 and pr[2] == "~SEMICOLON":
            continue
        a, b = G.dispatch.get((ITEM, pr)), G.dispatch.get((STMT, pr))
        if a is None or b is None:
            R.ob("C16.1-dispatch", " ".join(pr), False, "", "probe missing for one entry point")
            continue
        h1, h2 = set(a["handlers"]) - WRAPPERS, set(b["handlers"]) - WRAPPERS
        ok_h = h1 == h2
        must1 = all(e for (_, e) in a["outs"]) and bool(a["outs"])
        must2 = all(e for (_, e) in b["outs"]) and bool(b["outs"])
        can1 = any(not e for (_, e) in a["outs"])
        can2 = any(not e for (_, e) in b["outs"])
        first = pr[0]
        if len(pr) == 1:
            R.ob("C16.1-same-handler", first, ok_h, prog.body(ITEM).at,
                 f"first token {first}: `item` reaches {sorted(short(x) for x in h1 - h2)} but `stmt` reaches {sorted(short(x) for x in h2 - h1)} before consuming a token" if not ok_h else f"same handlers ({len(h1)})")
        # a statement that `stmt` can accept without diagnostic must not be rejected by `item` (and vice versa)
        ok_d = not ((must1 and can2) or (must2 and can1))
        R.ob("C16.1-diagnostic-agreement", " ".join(pr), ok_d, prog.body(ITEM).at,
             f"window `{' '.join(pr)}`: item outcomes (consumed, error) {a['outs']} vs stmt {b['outs']}: one entry point always reports a diagnostic where the other can parse cleanly" if not ok_d else "agree")
    # ---- C16.1 what follows a statement's terminator does not decide whether the statement is accepted: a one-token
    # statement `k ;` that `stmt` can parse without a diagnostic when anything but `;` follows is also parsed without
    # a diagnostic when an empty statement `;` follows (`break; ;`): both parts are clean on their own
    nfol = 0
    for pr in probes:
        if len(pr) == 3 and pr[2] == "~SEMICOLON":
            a_, b_ = G.dispatch.get((STMT, pr)), G.dispatch.get((STMT, (pr[0], "SEMICOLON", "SEMICOLON")))
            if a_ is None or b_ is None:
                continue
            nfol += 1
            clean_other = any(c_ and not e_ for (c_, e_) in a_["outs"])
            clean_semi = any(c_ and not e_ for (c_, e_) in b_["outs"])
            okf = not (clean_other and not clean_semi)
            R.ob("C16.1-follower-independent", pr[0], okf, prog.body(STMT).at,
                 "agree" if okf else f"`{pr[0]} ;` is parsed cleanly by stmt when something other than `;` follows ({a_['outs']}) but always with a diagnostic when an empty statement follows ({b_['outs']}): the sequence of two clean statements is not clean")
    R.floor("follower probes", nfol, 80)
    # ---- C16.2 every statement loop uses these entry points
    cg = prog.callgraph()
    callers = {f: sorted(k for k, v in cg.items() if f in v) for f in (ITEM, STMT)}
    want = {ITEM: ["oq3_parser::grammar::items::source_file_contents"], STMT: ["oq3_parser::grammar::expressions::expr_block_statements", "oq3_parser::grammar::items::block_or_statement"]}
    # the file-level loop (first statement parsed by `item`, which is stricter about `;`) is used for the file only:
    # a block body parsed through it would treat its leading statements like the head of a file
    SFC = "oq3_parser::grammar::items::source_file_contents"
    sfc_callers = sorted(k for k, v in cg.items() if SFC in v)
    R.ob("C16.2-statement-loops", "source_file_contents", sfc_callers == ["oq3_parser::grammar::entry::top::source_file"], prog.body(SFC).at if prog.body(SFC) else "",
         f"callers of source_file_contents: {[short(x) for x in sfc_callers]} (expected only entry::top::source_file)")
    for f in (ITEM, STMT):
        R.ob("C16.2-statement-loops", short(f), callers[f] == want[f], prog.body(f).at, f"callers of {short(f)}: {[short(x) for x in callers[f]]} (expected {[short(x) for x in want[f]]})")
    # the statement loops themselves parse nothing: whatever they consumed outside item/stmt would be parsed by position
    # in the sequence (first statement of the file, first of a block) and not by the statement dispatch
    LOOKAHEAD = ("Parser::at", "Parser::at_ts", "Parser::nth", "Parser::nth_at", "Parser::current", "Parser::error")
    loops = {"oq3_parser::grammar::items::source_file_contents": {ITEM, STMT},
             "oq3_parser::grammar::expressions::expr_block_statements": {ITEM, STMT},
             "oq3_parser::grammar::items::block_or_statement": {ITEM, STMT, "oq3_parser::grammar::expressions::atom::block_expr"}}
    for f, allowed in loops.items():
        b = prog.body(f)
        if b is None:
            R.ob("ANCHOR", f, False)
            continue
        other = sorted({c for _, t in b.calls() for c in [b.callee_of(t) or "?"] if (c.startswith("oq3_parser") or c.startswith("<oq3_parser") or c == "?") and c not in allowed and not c.endswith(LOOKAHEAD)})
        R.ob("C16.2-statement-loops-only-dispatch", short(f), not other, b.at,
             "the loop only looks ahead and calls the statement entry points" if not other else
             f"{short(f)} itself calls {[short(x) for x in other]}: a statement parsed by the loop is recognised only at that position of the sequence (e.g. as the first statement), while the same statement elsewhere goes through `stmt`")
    import C01
    C01.lookahead_relative(prog, R, "C16.4-position-independent-lookahead")
    C01.composite_jointness(prog, R, "C16.4-composite-lookahead")
    # ---- C16.3 a block statement ends at its closing brace: `{ } k ...` parsed in statement position leaves k as the
    # next token, for every token kind k.  (If the expression machinery went on after a statement-level block - a
    # postfix `(`/`[`, a binary operator - the block and the following statement would merge into one statement and
    # the statement list of a sequence would differ from the concatenation of its parts.)
    nb = 0
    for (fn, k), outs in sorted(G.block_probe.items()):
        if k in ("SEMICOLON", "EOF"):
            continue        # `{ };` : the optional terminating semicolon belongs to the block statement
        nb += 1
        bit = 1 << G.kdisc[k]
        bad = [(grammar_run.names(G, w, 4), c, e) for (w, c, e) in outs if w != bit]
        R.ob("C16.3-block-statement-ends-at-brace", k, not bad and bool(outs), prog.body(fn).at,
             "next token after the block statement is " + k if not bad else
             f"`{{ }} {k} ..` in statement position: some outcome leaves {bad[:2]} as the next token instead of {k}: the token after a statement-level block is consumed as part of the same statement (statements merge)")
    R.floor("block statement probes", nb, 80)
    # ---- C16.3 a compound statement ends with its body: in every function that parses a body through
    # block_or_statement (if / while / for and helpers), the last token-consuming call on every path is that body (or
    # a function of the same family, `else if`).  Anything consumed after the body - a `;`, say - belongs to the next
    # statement when the statement is parsed on its own and to this one in a sequence.
    BOS = "oq3_parser::grammar::items::block_or_statement"
    NONCONS = ("Parser::at", "Parser::at_ts", "Parser::nth", "Parser::nth_at", "Parser::current", "Parser::error", "Parser::start", "Marker::complete", "Marker::abandon",
               "CompletedMarker::precede", "CompletedMarker::extend_to")
    fam = sorted(k for k, v in cg.items() if BOS in v and "{closure" not in k)
    R.floor("functions that parse a body with block_or_statement", len(fam), 1)
    for f in fam:
        fb = prog.body(f)
        bad, np_ = [], 0
        for p_ in SymExec(prog, fb, max_visits=1, max_paths=2000).paths():
            if "__diverged__" in p_.env:
                continue
            cons = []
            for nm, a_, bb_ in p_.calls:
                if not (nm.startswith("oq3_parser::") or nm.startswith("<oq3_parser::")) or nm.endswith(NONCONS):
                    continue
                if nm.endswith(("Parser::eat", "Parser::expect")) and any(c_[0] == "switch" and isinstance(c_[1], tuple) and c_[1][0] == "call" and c_[1][1] == nm and c_[4] is not None and c_[2] == ("eq", 0) and c_[1][3:] and c_[1][3] == bb_ for c_ in p_.conds):
                    continue        # this eat/expect returned false on the path: nothing consumed
                cons.append(nm)
            if BOS not in cons and not any(x in fam for x in cons):
                continue
            np_ += 1
            if cons[-1] != BOS and cons[-1] not in fam:
                bad.append(short(cons[-1]))
        R.ob("C16.3-compound-ends-with-body", short(f), np_ > 0 and not bad, fb.at,
             f"{np_} path(s): the body is the last thing consumed" if np_ > 0 and not bad else
             f"after the body {short(f)} goes on to consume through {sorted(set(bad))}: the token after a loop / if body (e.g. an empty statement `;`) becomes part of this statement in a sequence but not when the statement is parsed on its own")
    # ---- C16.6 the text of a statement node does not depend on the trivia before it: the tree builder attaches
    # leading trivia to a node only for kinds n_attached_trivias answers non-zero for; for every kind the grammar
    # completes the answer is the constant 0 (a comment ending the previous line would otherwise become part of the
    # next statement's text in a sequence, but not when that statement is parsed on its own)
    import shapes
    from sym import deep_strip
    SK = "oq3_parser::syntax_kind::syntax_kind_enum::SyntaxKind"
    nb_ = prog.body("oq3_parser::shortcuts::n_attached_trivias")
    kinds = set()
    for b in prog.by_crate["oq3_parser"]:
        for bi, t in b.calls():
            if (b.callee_of(t) or "").endswith("Marker::complete"):
                kinds |= shapes.completed_kinds(prog, b, (bi, t))
    R.floor("node kinds completed by the grammar", len(kinds - {"?"}), 70)
    if nb_ is None or nb_.local_name(1) != "kind":
        R.ob("ANCHOR", "oq3_parser::shortcuts::n_attached_trivias(kind, ..)", False)
    else:
        vs = [n for n, d in prog.enum_variants(SK) or []]
        # evaluated for every SyntaxKind variant: the kinds with a non-zero answer must not be kinds the grammar
        # completes (on this tree only the unused CONST has an arm); a completion whose kind is a parameter
        # (`m.complete(p, node_kind)`) is not resolved here, so any non-zero arm besides CONST is then reported
        nz = []
        for K in vs:
            se = SymExec(prog, nb_, max_visits=1, max_paths=500)
            env = se.init_env()
            env[1] = ("adt", SK + "::" + K, ())
            rs = {deep_strip(p.env.get(0)) for p in se.paths(env) if "__diverged__" not in p.env}
            if rs != {("c", "usize", 0)}:
                nz.append(K)
        resolved = kinds - {"?"}
        bad = sorted(set(nz) & resolved) + (sorted(set(nz) - {"CONST"} - resolved) if "?" in kinds else [])
        R.ob("C16.6-no-leading-trivia-attachment", "n_attached_trivias", not bad, nb_.at,
             f"0 for all {len(resolved)} node kinds the grammar completes (non-zero only for {nz})" if not bad else
             f"leading trivia can be attached to nodes of kind {bad}: a comment that ends the previous statement's line becomes part of this statement's text in a sequence, while the statement parsed on its own does not contain it")
    R.premises(prog, "C16.0-line-tokens-premise", ["C15:C15.4-", "C15:C15.2-keyword-prefix", "C01:C01.2-step-counter", "C01:C01.6-narrowing"], "statements on separate lines stay separate tokens (line-oriented tokens end at the line feed, C15.4 / C15.2) and the parser's look-ahead budget is per token, not per input (C01.2), so that a long sequence of clean statements parses like its parts")
    # ---- C16.5 an assignment statement that has consumed its terminating semicolon ends there: in expr_bp no path
    # from `p.expect(SEMICOLON)` (statement-level assignment) leads back to the operator loop's `current_op`
    eb = prog.body("oq3_parser::grammar::expressions::expr_bp")
    if eb:
        from kernel import origins
        exps = [bi for bi, t in eb.calls() if (eb.callee_of(t) or "").endswith("Parser::expect") and any(og[0] == "agg" and og[2] == "SEMICOLON" for og in origins(prog, eb, t["args"][1], max_depth=3))]
        ops = {bi for bi, t in eb.calls() if (eb.callee_of(t) or "").endswith("::current_op")}
        succ = eb.succ()
        bad = []
        for e in exps:
            seen, st = set(), list(succ[e])
            while st:
                x = st.pop()
                if x in seen or eb.blocks[x].cleanup:
                    continue
                seen.add(x)
                if x in ops:
                    bad.append(e)
                    break
                st.extend(succ[x])
        R.ob("C16.5-assignment-ends-at-semicolon", "expr_bp", bool(exps) and not bad, eb.blocks[exps[0]].term["at"] if exps else eb.at,
             "after the statement-level assignment has consumed `;` control leaves the operator loop" if exps and not bad else
             f"{len(exps)} `expect(SEMICOLON)` site(s); from {len(bad)} of them control returns to the operator loop: an operator that starts the next statement (`-x;`, `+y;`) is applied to the finished assignment, and the two statements merge into one")
    else:
        R.ob("ANCHOR", "expr_bp", False)
