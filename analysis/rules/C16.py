"""C16 — statement parsing is compositional: the statement-position entry points agree."""
from kernel import *
import grammar_run
from gram import *

ITEM, STMT = "oq3_parser::grammar::items::item", "oq3_parser::grammar::expressions::stmt"
WRAPPERS = {ITEM, STMT, "oq3_parser::grammar::items::opt_item", "oq3_parser::grammar::expressions::expr_block_statements", "oq3_parser::grammar::items::source_file_contents"}


def run(prog, R):
    R.explanation = ("Sibling agreement of the two statement-position entry points of the grammar (`item`: first statement at top level; `stmt`: block bodies, "
                     "single-statement bodies and everything after the first non-item statement), decided with the token-kind abstract interpreter: for every "
                     "first token kind (and for one-token statements the window `k ; ;`) both reach the same handler functions before consuming anything and agree on "
                     "whether a diagnostic is unavoidable; plus who-calls rules for the statement loops.")
    R.not_decided = ["equality of whole statement lists for all statement sequences (follows only informally from a single dispatch)"]
    R.assumptions = ["the abstract interpreter's hand models (see C01)"]
    G = grammar_run.get(prog)
    for f in (ITEM, STMT):
        R.anchor(prog, f)
    probes = sorted({pr for (fn, pr) in G.dispatch})
    R.floor("dispatch probes", len(probes), 150)
    by_first = {}
    for pr in probes:
        a, b = G.dispatch.get((ITEM, pr)), G.dispatch.get((STMT, pr))
        if a is None or b is None:
            R.ob("C16.1-dispatch", " ".join(pr), False, "", "probe missing for one entry point")
            continue
        h1, h2 = set(a["handlers"]) - WRAPPERS, set(b["handlers"]) - WRAPPERS
        ok_h = h1 == h2
        must1 = all(e for (_, e) in a["outs"]) and bool(a["outs"])
        must2 = all(e for (_, e) in b["outs"]) and bool(b["outs"])
        can1 = any(not e for (_, e) in a["outs"])
        can2 = any(not e for (_, e) in b["outs"])
        first = pr[0]
        if len(pr) == 1:
            R.ob("C16.1-same-handler", first, ok_h, prog.body(ITEM).at,
                 f"first token {first}: `item` reaches {sorted(short(x) for x in h1 - h2)} but `stmt` reaches {sorted(short(x) for x in h2 - h1)} before consuming a token" if not ok_h else f"same handlers ({len(h1)})")
        # a statement that `stmt` can accept without diagnostic must not be rejected by `item` (and vice versa)
        ok_d = not ((must1 and can2) or (must2 and can1))
        R.ob("C16.1-diagnostic-agreement", " ".join(pr), ok_d, prog.body(ITEM).at,
             f"window `{' '.join(pr)}`: item outcomes (consumed, error) {a['outs']} vs stmt {b['outs']}: one entry point always reports a diagnostic where the other can parse cleanly" if not ok_d else "agree")
    # ---- C16.2 every statement loop uses these entry points
    cg = prog.callgraph()
    callers = {f: sorted(k for k, v in cg.items() if f in v) for f in (ITEM, STMT)}
    want = {ITEM: ["oq3_parser::grammar::items::source_file_contents"], STMT: ["oq3_parser::grammar::expressions::expr_block_statements", "oq3_parser::grammar::items::block_or_statement"]}
    for f in (ITEM, STMT):
        R.ob("C16.2-statement-loops", short(f), callers[f] == want[f], prog.body(f).at, f"callers of {short(f)}: {[short(x) for x in callers[f]]} (expected {[short(x) for x in want[f]]})")
    import C01
    C01.lookahead_relative(prog, R, "C16.4-position-independent-lookahead")
    C01.composite_jointness(prog, R, "C16.4-composite-lookahead")
    # ---- C16.3 a block statement ends at its closing brace: `{ } k ...` parsed in statement position leaves k as the
    # next token, for every token kind k.  (If the expression machinery went on after a statement-level block - a
    # postfix `(`/`[`, a binary operator - the block and the following statement would merge into one statement and
    # the statement list of a sequence would differ from the concatenation of its parts.)
    nb = 0
    for (fn, k), outs in sorted(G.block_probe.items()):
        if k in ("SEMICOLON", "EOF"):
            continue        # `{ };` : the optional terminating semicolon belongs to the block statement
        nb += 1
        bit = 1 << G.kdisc[k]
        bad = [(grammar_run.names(G, w, 4), c, e) for (w, c, e) in outs if w != bit]
        R.ob("C16.3-block-statement-ends-at-brace", k, not bad and bool(outs), prog.body(fn).at,
             "next token after the block statement is " + k if not bad else
             f"`{{ }} {k} ..` in statement position: some outcome leaves {bad[:2]} as the next token instead of {k}: the token after a statement-level block is consumed as part of the same statement (statements merge)")
    R.floor("block statement probes", nb, 80)
    # ---- C16.5 an assignment statement that has consumed its terminating semicolon ends there: in expr_bp no path
    # from `p.expect(SEMICOLON)` (statement-level assignment) leads back to the operator loop's `current_op`
    eb = prog.body("oq3_parser::grammar::expressions::expr_bp")
    if eb:
        from kernel import origins
        exps = [bi for bi, t in eb.calls() if (eb.callee_of(t) or "").endswith("Parser::expect") and any(og[0] == "agg" and og[2] == "SEMICOLON" for og in origins(prog, eb, t["args"][1], max_depth=3))]
        ops = {bi for bi, t in eb.calls() if (eb.callee_of(t) or "").endswith("::current_op")}
        succ = eb.succ()
        bad = []
        for e in exps:
            seen, st = set(), list(succ[e])
            while st:
                x = st.pop()
                if x in seen or eb.blocks[x].cleanup:
                    continue
                seen.add(x)
                if x in ops:
                    bad.append(e)
                    break
                st.extend(succ[x])
        R.ob("C16.5-assignment-ends-at-semicolon", "expr_bp", bool(exps) and not bad, eb.blocks[exps[0]].term["at"] if exps else eb.at,
             "after the statement-level assignment has consumed `;` control leaves the operator loop" if exps and not bad else
             f"{len(exps)} `expect(SEMICOLON)` site(s); from {len(bad)} of them control returns to the operator loop: an operator that starts the next statement (`-x;`, `+y;`) is applied to the finished assignment, and the two statements merge into one")
    else:
        R.ob("ANCHOR", "expr_bp", False)
