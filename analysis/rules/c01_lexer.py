"""C01 part L — lexer progress, loop classification and panic-site inventory of
the non-grammar part of the parse cone (lexer, LexedStr, shortcuts, event
processing, tree building, validation)."""
from collections import defaultdict
from kernel import *
from sym import SymExec, show
import inventory
from gram import reviewed_table

ROOTS = ["oq3_lexer::tokenize", "oq3_parser::lexed_str::LexedStr::new", "oq3_parser::shortcuts::LexedStr::to_input", "oq3_parser::shortcuts::LexedStr::intersperse_trivia",
         "oq3_parser::TopEntryPoint::parse", "oq3_syntax::parsing::parse_text", "oq3_syntax::parsing::parse_text_check_lex", "oq3_syntax::SourceFile::parse",
         "oq3_syntax::SourceFile::parse_check_lex", "oq3_syntax::validation::validate"]
BUMP = "oq3_lexer::cursor::Cursor::bump"

# loops that are neither iterator-driven nor cursor-driven: (function, callee that must lie on every cycle, reason)
REVIEWED_LOOPS = {
    "oq3_parser::shortcuts::Builder::eat_trivias": ("oq3_parser::shortcuts::Builder::do_token", "counter progress: every iteration that does not `break` calls do_token, which adds n_tokens = 1 to self.pos; the loop condition is self.pos < self.lexed.len()"),
    "oq3_parser::event::process": (None, "forward-parent walk `while let Some(fwd) = fp { idx += fwd; fp = take(events[idx]).forward_parent }`: each visited Start event is replaced by a tombstone whose forward_parent is None and offsets are strictly positive (written only by precede/extend_to as differences of increasing event indices), so idx strictly increases and is bounded by events.len()"),
}


def _inherits(prog, fn):
    """A non-public function all of whose callers are one reviewed function carries that function's loop (the loop
    was moved into a helper)."""
    b = prog.body(fn)
    if b is None or str(b.vis) == "pub":
        return None
    cg = prog.callgraph()
    cs = {k for k, v in cg.items() if fn in v}
    if len(cs) == 1 and next(iter(cs)) in REVIEWED_LOOPS and not REVIEWED_LOOPS[next(iter(cs))][0]:
        return next(iter(cs))
    return None


def cone(prog):
    c = prog.cone(ROOTS)
    return {k for k in c if not (k.startswith("oq3_parser::grammar") or k.startswith("oq3_parser::parser::"))}


def cycles_pass_through(body, comp, blocks_with):
    """Removing `blocks_with` from the SCC leaves it acyclic?"""
    sub = comp - blocks_with
    succ = body.succ()
    # detect a cycle in the induced subgraph
    color = {}

    def dfs(v):
        color[v] = 1
        for w in succ[v]:
            if w in sub:
                if color.get(w) == 1:
                    return True
                if w not in color and dfs(w):
                    return True
        color[v] = 2
        return False
    for v in sub:
        if v not in color and dfs(v):
            return False
    return True


def eof_model(se, st, t, cal, args, site):
    if cal == "oq3_lexer::cursor::Cursor::first" or cal == "oq3_lexer::cursor::Cursor::second":
        return ("c", "char", 0)
    if cal == "oq3_lexer::cursor::Cursor::is_eof":
        return ("c", "bool", 1)
    if cal == BUMP:
        return ("adt", "std::option::Option::None", ())
    return None


def run(prog, R):
    for r_ in ROOTS:
        R.anchor(prog, r_)
    fns = cone(prog)
    R.floor("functions in the non-grammar parse cone", len(fns), 150)
    R.info["non_grammar_cone"] = {"functions": len(fns)}
    reviewed = reviewed_table()
    # ---------------- C01.0 / C01.1 loop classification
    nloops = 0
    for fn in sorted(fns):
        b = prog.body(fn)
        for ci, comp in enumerate(sorted(b.sccs(), key=lambda c: min(c))):
            if all(b.blocks[x].cleanup for x in comp):
                continue
            nloops += 1
            head = min(comp)
            key = f"{inventory.ishort(fn)}:loop{ci}"
            at = b.blocks[head].term["at"]
            calls = {x: b.callee_of(b.blocks[x].term) or "" for x in comp if b.blocks[x].term["k"] == "call"}
            bump_blocks = {x for x, c in calls.items() if c == BUMP}
            next_blocks = {x for x, c in calls.items() if c.endswith("::next") and not c.startswith("oq3_") and "<oq3_" not in c.split(" as ")[0]}
            if next_blocks and cycles_pass_through(b, comp, next_blocks):
                # driven by a std iterator (e.g. the characters of a constant keyword): ends when it is exhausted,
                # whether or not the cursor is advanced on the way
                its = sorted(set(calls[x] for x in next_blocks))
                R.ob("C01.0-loop-class", key, True, at, f"iterator-driven: every cycle passes through {its}")
            elif b.crate == "oq3_lexer" and fn.startswith("oq3_lexer::") and "unescape" not in fn and bump_blocks:
                ok = cycles_pass_through(b, comp, bump_blocks)
                R.ob("C01.1-lexer-progress", key, ok, at, "every cycle of this loop passes through Cursor::bump (one character consumed per iteration)" if ok else "a cycle of this lexer loop avoids Cursor::bump: it may iterate without consuming a character")
                # EOF exit: from the header, under first()=second()='\\0', is_eof()=true, bump()=None, no path comes back to the header
                se = SymExec(prog, b, call_model=eof_model, inline=lambda c: c in ("oq3_lexer::is_whitespace", "oq3_lexer::is_id_start", "oq3_lexer::is_id_continue"), max_visits=1)
                back = False
                for hd in sorted(comp):
                    # explore from every block of the component once around
                    pass
                # simple exploration restricted to the component
                back = eof_returns(prog, b, comp, se)
                if back and any(str(b.local_ty(i_)).startswith("impl Fn") or "Fn(" in str(b.local_ty(i_)) for i_ in range(1, b.nargs + 1)):
                    # the loop's exit test is a predicate handed in by the callers: decided per caller, with the helper
                    # and the predicate looked into (run from the caller's entry under the end-of-input model; a path
                    # that is still inside the loop after three rounds stays in it)
                    cgx_ = prog.callgraph()
                    cs_ = [k_ for k_, v_ in cgx_.items() if fn in v_ and k_.startswith("oq3_lexer::")]
                    stays = not cs_
                    for k_ in cs_:
                        kb_ = prog.body(k_)
                        se2 = SymExec(prog, kb_, call_model=eof_model, max_visits=3, max_paths=2000,
                                      inline=lambda c, fn=fn: c == fn or "{closure" in c or c in ("oq3_lexer::is_whitespace", "oq3_lexer::is_id_start", "oq3_lexer::is_id_continue"))
                        if any("__cut__" in p_.env for p_ in se2.paths()) or se2.truncated:
                            stays = True
                    back = stays
                R.ob("C01.1-lexer-eof-exit", key, not back, at, "at end of input (first()=='\\0', is_eof(), bump()==None) every path leaves the loop" if not back else "at end of input some path stays in the loop")
            elif next_blocks and cycles_pass_through(b, comp, next_blocks):
                its = sorted(set(calls[x] for x in next_blocks))
                R.ob("C01.0-loop-class", key, True, at, f"iterator-driven: every cycle passes through {its}")
            elif fn in REVIEWED_LOOPS or _inherits(prog, fn):
                must, why = REVIEWED_LOOPS[fn] if fn in REVIEWED_LOOPS else REVIEWED_LOOPS[_inherits(prog, fn)]
                ok = True
                if must:
                    mb = {x for x, c in calls.items() if c == must}
                    ok = bool(mb) and cycles_pass_through(b, comp, mb)
                if ok:
                    R.reviewed("C01.0-loop-class", key, at, why)
                else:
                    R.ob("C01.0-loop-class", key, False, at, f"reviewed loop no longer passes through {must} on every cycle")
            else:
                R.ob("C01.0-loop-class", key, False, at, f"unclassified loop (calls on the cycle: {sorted(set(calls.values()))[:8]}): not iterator-driven, not cursor-driven, not reviewed")
    R.floor("loops classified in the non-grammar cone", nloops, 20)
    # recursion in the non-grammar cone: only structural (none expected besides rowan)
    cg = prog.callgraph()
    graph = {f: {g for g in cg.get(f, ()) if g in fns} for f in fns}
    from C01 import sccs_of
    for comp in sccs_of(graph):
        R.ob("C01.0-recursion", "+".join(inventory.ishort(x) for x in comp)[:150], False, prog.body(comp[0]).at, f"recursion among non-grammar functions {comp}: needs a ranking argument")
    # ---------------- advance_token shape (shared with C14)
    at_ = R.anchor(prog, "oq3_lexer::Cursor::advance_token")
    if at_:
        first_call = None
        for bi, t in at_.calls():
            first_call = (bi, at_.callee_of(t))
            break
        R.ob("C01.1-advance_token", "first-action-is-bump", first_call is not None and first_call[0] == 0 and first_call[1] == BUMP, at_.at, f"first call {first_call}")
    # ---------------- who may produce a FloatSplit event
    n_split, n_ctrl = 0, 0
    for k, b in prog.bodies.items():
        for bi, si, s_ in b.stmts_with_pos():
            if s_["k"] != "assign":
                continue
            for op in operands_of_rv(s_["rv"]):
                it = str(op.get("item", "")) if op.get("k") == "const" else ""
                if "Output::SPLIT_EVENT" in it:
                    n_split += 1
                    R.ob("C01.7-no-float-split-producer", inventory.ishort(k), False, s_["at"], "Output::SPLIT_EVENT is used to build an event: the reviewed-unreachable float_split code becomes reachable")
                if "Output::ENTER_EVENT" in it or "Output::EXIT_EVENT" in it:
                    n_ctrl += 1
    R.ob("C01.7-no-float-split-producer", "no-writer", n_split == 0, "", f"{n_split} uses of Output::SPLIT_EVENT as a value (positive control: {n_ctrl} uses of ENTER_EVENT/EXIT_EVENT found by the same matcher)")
    R.floor("positive control: ENTER/EXIT_EVENT uses", n_ctrl, 2)
    writers = set()
    for s_ in field_sites(prog, "oq3_parser::output::Output", "event"):
        if s_["mode"] in ("write", "refmut", "rawptr", "move") and "Default" not in s_["body"].npath:
            writers.add(s_["body"].npath)
    allowed = {"oq3_parser::output::Output::" + x for x in ("token", "enter_node", "leave_node", "error")}
    R.ob("C01.7-no-float-split-producer", "event-writers", writers <= allowed and bool(writers), "", f"writers of Output.event: {sorted(writers)}")
    # ---------------- inventory
    cnt = inventory.classify(prog, R, "C01.6-inventory", fns, reviewed)
    R.floor("panic-capable sites in the non-grammar cone", cnt, 100)


def eof_returns(prog, b, comp, se):
    """Does some path, started at the loop's entry block under the EOF model, come back to that block?"""
    head = min(comp)
    # the path enumerator starts at block 0; we start it at `head` by running it on a view of the body
    start = head
    stack = [(start, {}, 0)]
    seen = 0
    paths = se_paths_from(se, b, start)
    for tr in paths:
        if tr.count(start) > 1:
            return True
    return False


def se_paths_from(se, b, start):
    """Traces (tuples of blocks) of all paths from `start` until they leave via return/diverge or revisit `start`."""
    out = []
    from sym import PathState
    # reuse SymExec machinery by temporarily treating `start` as entry: emulate with a tiny loop
    work = [(start, PathState(se.init_env()), (start,))]
    n = 0
    while work and n < 5000:
        bb, st, tr = work.pop()
        n += 1
        bl = b.blocks[bb]
        for s_ in bl.stmts:
            if s_["k"] == "assign":
                v = se.rvalue(st.env, s_["rv"], bb)
                if not s_["lhs"]["p"]:
                    st.env[s_["lhs"]["l"]] = v
                else:
                    se.store(st.env, s_["lhs"], v)
        t = bl.term
        k = t["k"]
        nxt = []
        if k in ("goto", "drop", "assert"):
            nxt = [(t["target"], st)]
        elif k == "call":
            if t["target"] is not None:
                args = tuple(se.operand(st.env, a) for a in t["args"])
                cal = b.callee_of(t) or "?"
                alts = None
                if se.call_model:
                    alts = se.call_model(se, st, t, cal, args, (bb, 0))
                    if alts is not None and not isinstance(alts, list):
                        alts = [((), alts, False)]
                if alts is None:
                    alts = se.default_call(cal, args, (bb, len(tr)), False, t)
                for extra, val, div in alts:
                    if div:
                        continue
                    s2 = st.fork()
                    ok = all(se.consistent(s2, c) for c in extra)
                    if not ok:
                        continue
                    s2.conds = s2.conds + tuple(extra)
                    if not t["dest"]["p"]:
                        s2.env[t["dest"]["l"]] = val
                    nxt.append((t["target"], s2))
        elif k == "switch":
            d = se.operand(st.env, t["discr"])
            kd = se.known_discr(d)
            if isinstance(d, tuple) and d[0] == "c" and isinstance(d[2], int):
                kd = d[2]
            cases = [(int(c[0]), c[1]) for c in t["cases"]]
            if kd is not None:
                tgt = t["otherwise"]
                for v, target in cases:
                    if v == kd:
                        tgt = target
                nxt = [(tgt, st)]
            else:
                for v, target in cases:
                    c = ("switch", d, ("eq", v), t["ty"], bb)
                    if se.consistent(st, c):
                        s2 = st.fork()
                        s2.conds = s2.conds + (c,)
                        nxt.append((target, s2))
                c = ("switch", d, ("ne", tuple(v for v, _ in cases)), t["ty"], bb)
                if se.consistent(st, c) and b.blocks[t["otherwise"]].term["k"] != "unreachable":
                    s2 = st.fork()
                    s2.conds = s2.conds + (c,)
                    nxt.append((t["otherwise"], s2))
        if not nxt:
            out.append(tr)
            continue
        for (tgt, s2) in nxt:
            if tgt == start or tr.count(tgt) >= 2:
                out.append(tr + (tgt,))
                continue
            work.append((tgt, s2, tr + (tgt,)))
    return out
