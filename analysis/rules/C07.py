"""C07 — names resolve by lexical scoping; undeclared and duplicate names are diagnosed (structural clauses)."""
from kernel import *
from sym import SymExec, show, deep_strip, strip_transparent
from sema import *
import inventory

BODY_FNS = (S2S + "block_or_stmt_to_asg_type", S2S + "block_expr_to_asg_stmt_list", S2S + "block_expr_to_asg_type")


def scope_balance(prog, R, rule):
    """K4: every body of oq3_semantics is enter/exit balanced on all normal paths."""
    n_pairs = 0
    for b in prog.by_crate["oq3_semantics"]:
        has = [bi for bi, t in b.calls() if b.callee_of(t) in (ENTER, EXIT)]
        if not has or b.npath in (ENTER, EXIT):
            continue
        at_entry, problems, sites = scope_flow(prog, b)
        ne = sum(1 for _, c, _ in sites if c == ENTER)
        nx = sum(1 for _, c, _ in sites if c == EXIT)
        if b.npath == ST + "new":
            R.ob(rule, "SymbolTable::new opens exactly the global scope", ne == 1 and nx == 0 and [s[2] for s in sites if s[1] == ENTER] == [("Global",)], b.at, f"enter={ne} exit={nx}")
            continue
        n_pairs += min(ne, nx)
        R.ob(rule, inventory.ishort(b.npath), not problems and ne == nx, b.at, f"{ne} enter_scope / {nx} exit_scope; " + ("balanced on every path, never negative, zero at return" if not problems else f"problems: {problems[:3]}"))
    R.floor("enter/exit scope pairs", n_pairs, 5)
    # who may call enter_scope / exit_scope: only with_scope! expansions (and SymbolTable::new)
    for k, b in prog.bodies.items():
        for bi, t in b.calls():
            c = b.callee_of(t)
            if c in (ENTER, EXIT):
                ok = "with_scope" in t.get("exp", []) or k == ST + "new"
                R.ob(rule + "-who-may-call", f"{inventory.ishort(k)}:{c.split('::')[-1]}:bb{0}".replace(":bb0", ""), ok, t["at"], f"{c.split('::')[-1]} called from {inventory.ishort(k)} (macro provenance {t.get('exp')}); allowed only inside with_scope! and SymbolTable::new")


def return_type_scope(prog, R, rule):
    """A subroutine's return type belongs to its signature: it is translated in the scope of the `def` statement
    (where a designator such as int[n] sees the enclosing declarations), not inside the subroutine scope where the
    parameters shadow them.  Every scalar_type_to_type call reachable from stmt_to_asg_stmt itself (directly or
    from one of its closures) happens with an empty relative scope stack."""
    s2s = prog.body(S2S + "stmt_to_asg_stmt")
    if not s2s:
        R.ob("ANCHOR", S2S + "stmt_to_asg_stmt", False)
        return
    _, _, sites = scope_flow(prog, s2s)
    n, bad = 0, []
    for (bb, c, st) in sites:
        hit = c.endswith("::scalar_type_to_type")
        if c.startswith("closure:"):
            cb = prog.body(c[8:])
            hit = cb is not None and any((cb.callee_of(t) or "").endswith("::scalar_type_to_type") for _, t in cb.calls())
        if hit:
            n += 1
            if st != ():
                bad.append((s2s.blocks[bb].term["at"], st))
    R.ob(rule, "def return type is translated outside the subroutine scope", not bad and n >= 1, bad[0][0] if bad else s2s.at,
         f"{n} scalar_type_to_type sites in stmt_to_asg_stmt, all at relative scope depth 0" if not bad else f"return/parameter type translated with scope stack {bad[0][1]} open: identifiers in its designator resolve against the subroutine's parameters instead of the enclosing scope")


def run(prog, R):
    R.explanation = ("Scope discipline of the translator decided on MIR: enter/exit_scope balance of every body (forward dataflow of the scope stack), every body translation "
                     "(if/else/while/for/case/default: Local; gate/def: Subroutine) happens inside a freshly entered scope of the right kind with loop variable and parameters "
                     "bound inside and the gate/def name bound after the scope is left; initializers are translated before their name is bound; lookups insert exactly one "
                     "Undef*Error iff the table lookup failed and bindings one RedeclarationError iff the table refused; plus the symbol-table premises of C19.")
    R.not_decided = ["the relational statement (two uses resolve to the same symbol exactly when ...) over all programs: follows from these premises and C19 by a prose argument"]
    R.assumptions = ["C19 premises (checked by C19)", "rustc MIR"]
    scope_balance(prog, R, "C07.1-scope-balance")
    s2s = R.anchor(prog, S2S + "stmt_to_asg_stmt")
    if not s2s:
        return
    R.premises(prog, "C07.0-symbol-table-premise", ["C19:"], "lexical scoping is argued from the translator's scope discipline on top of a symbol table that behaves as a stack of scopes")
    # ---- C07.2 bodies translated inside a fresh scope of the right kind
    want_kind = {"IfStmt": "Local", "WhileStmt": "Local", "ForStmt": "Local", "SwitchCaseStmt": "Local", "Gate": "Subroutine", "Def": "Subroutine"}
    n = 0
    _, _, parent_sites = scope_flow(prog, s2s)
    closure_ctx = {}
    for (bb, c, st) in parent_sites:
        if c.startswith("closure:"):
            closure_ctx.setdefault(c[8:], set()).add(st)
    for fn in [s2s.npath] + [k for k in prog.bodies if k.startswith(s2s.npath + "::{closure")]:
        b = prog.body(fn)
        at_entry, problems, sites = scope_flow(prog, b)
        outer = closure_ctx.get(fn, {()}) if fn != s2s.npath else {()}
        for (bb, c, st0) in sites:
            if c in BODY_FNS:
                n += 1
                stacks = {o + st0 for o in outer}
                st = sorted(stacks)[0]
                ok = all(len(s_) == 1 and s_[0] in ("Local", "Subroutine") for s_ in stacks)
                R.ob("C07.2-body-in-fresh-scope", f"{inventory.ishort(fn)}:{c.split('::')[-1]}:{n}", ok, b.blocks[bb].term["at"], f"{c.split('::')[-1]} called with scope stack {st} (relative to function entry)")
    R.floor("body translation sites", n, 5)
    # per arm: scope kind, parameter/loop-variable binding inside, name binding outside
    ps, trunc = paths(prog, s2s.npath)
    R.ob("C07.2-evaluated", "stmt_to_asg_stmt paths", not trunc and len(ps) >= 40, s2s.at, f"{len(ps)} paths")
    seen_arm = set()
    for p in ps:
        if "__diverged__" in p.env:
            continue
        arm = arm_of(prog, p, STMT_ENUM, "stmt")
        if arm not in want_kind:
            continue
        seq = []
        for c in p.calls:
            nm = c[0]
            if nm == ENTER:
                seq.append(("enter", show(c[1][1]).split("::")[-1]))
            elif nm == EXIT:
                seq.append(("exit",))
            elif nm.endswith("Context::new_binding"):
                seq.append(("bind", show(deep_strip(c[1][1]))[:40]))
            elif nm in BODY_FNS:
                seq.append(("body",))
            elif nm.endswith(("bind_parameter_list", "bind_typed_parameter_list")):
                seq.append(("params",))
        depth = 0
        ok = True
        kinds = []
        body_in, bind_in, bind_out_after, params_in = [], [], [], []
        exited = False
        for s_ in seq:
            if s_[0] == "enter":
                depth += 1
                kinds.append(s_[1])
            elif s_[0] == "exit":
                depth -= 1
                exited = True
            elif s_[0] == "body":
                body_in.append(depth)
            elif s_[0] == "bind":
                (bind_in if depth > 0 else bind_out_after).append((s_[1], exited))
            elif s_[0] == "params":
                params_in.append(depth)
        okk = all(k == want_kind[arm] for k in kinds) and bool(kinds)
        okb = all(d == 1 for d in body_in)
        okp = all(d == 1 for d in params_in)
        if arm == "ForStmt":
            okn = len(bind_in) == 1 and not bind_out_after      # loop variable bound inside the loop scope
        elif arm in ("Gate", "Def"):
            okn = len(bind_out_after) == 1 and bind_out_after[0][1] and not bind_in and len(params_in) >= 1   # name bound after the scope was left
        else:
            okn = not bind_in and not bind_out_after
        key = f"{arm}"
        if (arm, tuple(seq)) in seen_arm:
            continue
        seen_arm.add((arm, tuple(seq)))
        R.ob("C07.2-scope-kind", f"{arm}:{len([x for x in seen_arm if x[0]==arm])}", okk and okb and okp and okn, s2s.at,
             f"arm {arm}: scopes {kinds} (expected {want_kind[arm]}); bodies at depth {body_in}; parameter lists at depth {params_in}; bindings inside {bind_in}, after the scope {bind_out_after}")
    for arm in want_kind:
        R.ob("ANCHOR", "arm:" + arm, any(x[0] == arm for x in seen_arm), s2s.at, f"statement arm {arm} found")
    # switch: each case body (closure) in its own Local scope
    cl = prog.body(s2s.npath + "::{closure#0}")
    if cl:
        at_entry, problems, sites = scope_flow(prog, cl)
        ks = [st for (bb, c, st) in sites if c in BODY_FNS]
        R.ob("C07.2-scope-kind", "SwitchCaseStmt:case-closure", ks == [("Local",)] and not problems, cl.at, f"case body translated with scope stack {ks}")
    else:
        R.ob("ANCHOR", "switch case closure", False)

    # each body has a scope of its own: between one enter_scope and its exit_scope at most one statement-list / body
    # translation happens (then and else, or two cases, must not share a scope)
    BODYLIKE = tuple(BODY_FNS) if not isinstance(BODY_FNS, (set, frozenset)) else tuple(BODY_FNS)
    shared = []
    ps_all, _ = paths(prog, s2s.npath)
    for p in ps_all:
        if "__diverged__" in p.env:
            continue
        depth, counts = 0, []
        for nm, a_, bb_ in p.calls:
            if nm == ENTER:
                depth += 1
                counts.append(0)
            elif nm == EXIT and counts:
                c_ = counts.pop()
                depth -= 1
                if c_ > 1:
                    shared.append((str(arm_of(prog, p, STMT_ENUM, "stmt")), c_))
            elif nm in BODYLIKE and counts:
                counts[-1] += 1
            elif counts:
                # a body translated inside a closure handed to map / and_then / for_each within the scope
                for a__ in a_:
                    a__ = strip_transparent(a__) if isinstance(a__, tuple) else a__
                    if isinstance(a__, tuple) and a__[0] == "closure":
                        cb_ = prog.body(a__[1])
                        if cb_ is not None and any((cb_.callee_of(t_) or "") in BODYLIKE for _, t_ in cb_.calls()):
                            counts[-1] += 1
    R.ob("C07.2-one-body-per-scope", "no two bodies are translated inside one enter/exit pair", not shared, s2s.at, f"{len(ps_all)} paths" if not shared else f"arms translating several bodies in one scope: {sorted(set(shared))[:3]}: declarations of one branch are visible (and clash) in the other")
    return_type_scope(prog, R, "C07.2-signature-scope")
    # ---- C07.3 declaration order
    cd = R.anchor(prog, S2S + "classical_declaration_statement_to_asg_stmt")
    if cd:
        ps, trunc = paths(prog, cd.npath)
        bad = 0
        nb = 0
        for p in ps:
            if "__diverged__" in p.env:
                continue
            names = [c[0] for c in p.calls]
            if S2S + "expr_to_asg_texpr" in names and CTX + "new_binding" in names:
                nb += 1
                if names.index(S2S + "expr_to_asg_texpr") > names.index(CTX + "new_binding"):
                    bad += 1
        R.ob("C07.3-initializer-before-binding", "classical declaration", bad == 0 and nb > 0, cd.at, f"{nb} paths: the initializer is translated before the declared name is bound (a name is not visible in its own initializer)")
    ps, _ = paths(prog, s2s.npath)
    nal, badal = 0, 0
    for p in ps:
        if arm_of(prog, p, STMT_ENUM, "stmt") == "AliasDeclarationStatement" and "__diverged__" not in p.env:
            names = [c[0] for c in p.calls]
            if CTX + "new_binding" not in names:
                continue
            nal += 1
            if not (S2S + "expr_to_asg_texpr" in names and names.index(S2S + "expr_to_asg_texpr") < names.index(CTX + "new_binding")):
                badal += 1
    R.ob("C07.3-initializer-before-binding", "alias", nal >= 1 and not badal, s2s.at, f"alias: right-hand side translated before the alias name is bound on all {nal} binding path(s)")

    # gate definition: names are bound in textual order: angle parameters `(a, b)` before the qubit list `q, r`
    # (when the two lists share a name, the one written first must win and the second be the redeclaration)
    go_, ng = True, 0
    for p in ps:
        if "__diverged__" in p.env or arm_of(prog, p, STMT_ENUM, "stmt") != "Gate":
            continue
        bl_ = [show(c[1][0]) for c in p.calls if c[0].endswith("::bind_parameter_list")]
        ia = [i for i, x in enumerate(bl_) if "angle_params" in x]
        iq = [i for i, x in enumerate(bl_) if "qubit_params" in x]
        if ia and iq:
            ng += 1
            go_ = go_ and max(ia) < min(iq)
    # subroutine parameters: each parameter is bound in the same step in which its type is translated, so that an
    # earlier parameter is visible (and shadows an outer name) in the designator of a later one
    fam_ = [k for k in prog.bodies if k.startswith(S2S + "bind_typed_parameter_list")]
    tr_ = [k for k in fam_ if any((prog.body(k).callee_of(t) or "").endswith("param_type_to_type") for _, t in prog.body(k).calls())]
    bd_ = [k for k in fam_ if any((prog.body(k).callee_of(t) or "").endswith("Context::new_binding") for _, t in prog.body(k).calls())]
    okp_ = bool(tr_) and bool(bd_) and set(tr_) == set(bd_)
    if okp_:
        for k in tr_:
            kb = prog.body(k)
            dom_ = kb.dominators()
            trb = [bi for bi, t in kb.calls() if (kb.callee_of(t) or "").endswith("param_type_to_type")]
            bdb = [bi for bi, t in kb.calls() if (kb.callee_of(t) or "").endswith("Context::new_binding")]
            # the translation happens before the binding of the same parameter: no binding block dominates a translation
            okp_ = okp_ and not any(x in dom_[y] for x in bdb for y in trb)
    R.ob("C07.3-binding-order", "def: a parameter is bound in the step that translates its type", okp_, prog.body(fam_[0]).at if fam_ else "",
         f"type translation and binding happen in {[k.split('bind_typed_parameter_list')[-1] for k in tr_]}" if okp_ else
         f"types are translated in {[k.split('bind_typed_parameter_list')[-1] for k in tr_]} but names are bound in {[k.split('bind_typed_parameter_list')[-1] for k in bd_]}: all types are resolved before any parameter is bound, so `def f(int[8] n, int[n] m)` takes the width from an outer `n`")
    R.ob("C07.3-binding-order", "gate: angle parameters are bound before qubit parameters", go_ and ng >= 1, s2s.at, f"{ng} paths of the Gate arm bind both lists")
    # ---- C07.5 every use is resolved through the diagnosing helpers: SymbolTable::lookup itself reports nothing, so
    # the translator may reach it only through Context::lookup_symbol / lookup_gate_symbol (who-may-call)
    cg5 = prog.callgraph()
    LK5 = "oq3_semantics::symbols::SymbolTable::lookup"
    callers5 = sorted(k for k, v in cg5.items() if LK5 in v)
    # the diagnosing helpers are recognised by what they do, not by their names: a caller inside Context that, on
    # every path on which the table's answer is an error, inserts a diagnostic (the symbol table's own
    # lookup_or_new_binding binds instead)
    def _diagnoses(fn5):
        b5 = prog.body(fn5)
        ps5 = [p for p in SymExec(prog, b5, max_paths=2000).paths() if "__diverged__" not in p.env]
        if not ps5:
            return False
        for p in ps5:
            if not calls_named(p, LK5):
                continue
            ie = find_cond(p, lambda t: isinstance(t, tuple) and t[0] in ("call", "pure") and t[1].endswith("is_err")) + \
                [c == ("eq", 1) for t, c in conds_of(p) if isinstance(t, tuple) and t[0] == "discr" and LK5 in show(t)]
            if not ie:
                return False            # the answer is not examined: nothing can be reported
            if ie[0] and not errors_on(p):
                return False
        return True
    extra5 = [c for c in callers5 if not (c == "oq3_semantics::symbols::SymbolTable::lookup_or_new_binding" or (c.startswith(CTX) and _diagnoses(c)))]
    R.ob("C07.5-lookup-diagnostics", "SymbolTable::lookup is reached only through the diagnosing helpers", not extra5 and len(callers5) >= 2, prog.body(LK5).at if prog.body(LK5) else "",
         f"callers: {[c.split('::')[-1] for c in callers5]}" if not extra5 else f"{[c.replace('oq3_semantics::', '') for c in extra5]} call SymbolTable::lookup directly: an unresolved name there is not reported as undefined")
    # ---- C07.5 diagnostics at lookup / binding time
    for fn, errk, table_call in ((CTX + "lookup_symbol", "UndefVarError", ST + "lookup"), (CTX + "lookup_gate_symbol", "UndefGateError", ST + "lookup"), (CTX + "new_binding", "RedeclarationError", ST + "new_binding")):
        b = R.anchor(prog, fn)
        if not b:
            continue
        # private helpers of Context are looked into (two public look-ups sharing one private body)
        ps = SymExec(prog, b, max_paths=4000, inline=lambda c: c.startswith(CTX) and c != fn and prog.body(c) is not None and str(prog.body(c).vis).startswith("in ")).paths()
        for p in ps:
            if "__diverged__" in p.env:
                continue
            errs = errors_on(p)
            tc = calls_named(p, table_call)
            iserr = find_cond(p, lambda t: isinstance(t, tuple) and t[0] in ("call", "pure") and t[1].endswith("is_err"))
            ok = len(tc) == 1 and len(iserr) == 1 and ((errs == [errk]) == iserr[0]) and (errs in ([], [errk]))
            ret = deep_strip(p.env.get(0))
            ok = ok and isinstance(ret, tuple) and ret[0] == "call" and ret[1] == table_call
            if ok and tc:
                a = [deep_strip(x) for x in tc[0][1]]
                ok = a[1] == ("arg", 2, "name")
            R.ob("C07.5-lookup-diagnostics", f"{fn.split('::')[-1]}:{'err' if iserr and iserr[0] else 'ok'}", ok, b.at, f"errors {errs} under is_err()=={iserr}; returns the table's result unchanged")
    # SymbolType for Result: Err => Undefined
    sb = prog.body("<std::result::Result<oq3_semantics::symbols::SymbolRecord, oq3_semantics::symbols::SymbolError> as oq3_semantics::symbols::SymbolType>::symbol_type")
    if sb:
        def _res_model(se_, st, t, cal, args, site):
            # Result / Option combinators as a branch on the variant: `r.as_ref().map_or(d, f)` is `match r { Ok(x) => f(x), Err(_) => d }`
            nm = cal.rsplit("::", 1)[-1]
            if not cal.startswith(("std::result::Result::", "core::result::Result::", "std::option::Option::", "core::option::Option::")) or not args:
                return None
            if nm in ("as_ref", "as_mut", "as_deref"):
                return [((), args[0], False)]
            if nm in ("map_or", "map_or_else") and len(args) == 3:
                d_ = ("discr", args[0])
                okv = 0 if "Result" in cal else 1
                errv = 1 - okv
                dflt = args[1] if nm == "map_or" else ("call", "{default}", (args[1],), site, False)
                return [((("switch", d_, ("eq", errv), "isize", site),), dflt, False),
                        ((("switch", d_, ("eq", okv), "isize", site),), ("call", "{mapped}", (args[2], ("field", args[0], 0)), site, False), False)]
            return None
        ps = SymExec(prog, sb, max_paths=500, call_model=_res_model).paths()
        nerr, bade = 0, []
        for p in ps:
            if "__diverged__" in p.env:
                continue
            r = deep_strip(p.env.get(0))
            d = [c for t, c in conds_of(p)]
            if d and d[0] == ("eq", 1):
                nerr += 1
                if "Type::Undefined" not in show(r):
                    bade.append(show(r)[:60])
        R.ob("C07.5-lookup-diagnostics", "unresolved => Type::Undefined", nerr >= 1 and not bade, sb.at, f"SymbolType for Result maps Err to Type::Undefined on all {nerr} Err path(s); deviating {bade[:2]}")
    else:
        R.ob("ANCHOR", "SymbolType for Result", False)
    # one lookup per identifier use
    for fn, want in ((S2S + "lookup_identifier", 1), (S2S + "indexed_identifier_to_asg_type", 1)):
        b = R.anchor(prog, fn)
        if b:
            ps, _ = paths(prog, fn)
            cnt = {len(calls_named(p, "Context::lookup_symbol")) for p in ps if "__diverged__" not in p.env}
            R.ob("C07.5-one-lookup-per-use", fn.split("::")[-1], cnt == {want}, b.at, f"lookups per path {sorted(cnt)}")
    ga = R.anchor(prog, S2S + "gate_call_expr_to_asg_stmt")
    if ga:
        ps, _ = paths(prog, ga.npath)
        cnt = {len(calls_named(p, "Context::lookup_gate_symbol")) for p in ps if "__diverged__" not in p.env}
        R.ob("C07.5-one-lookup-per-use", "gate name", cnt == {1}, ga.at, f"gate-name lookups per path {sorted(cnt)}")
