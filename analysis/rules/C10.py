"""C10 — literal values reach the semantic graph exactly (table-agreement and provenance clauses)."""
import json, os
from kernel import *
from sym import SymExec, show, deep_strip
from sema import paths, conds_of, truth, S2S
from tables import string_table
from gram import VERIF
import inventory

TE = "oq3_syntax::ast::token_ext::"


def run(prog, R):
    R.explanation = ("Agreement of the unit tables across lexer, validation and the AST accessor; radix prefix/digit tables of lexer and IntNumber::radix; IntNumber::value and value_u128 are the "
                     "same function; the digit string handed to from_str_radix is the underscore-stripped text with the accessor's radix; sign flags of the literal constructors; "
                     "booleans and bit-string width.")
    R.not_decided = ["numeric value of the digit string (delegated to u128::from_str_radix / str::parse::<f64>)", "hex digits that look like exponents, values near 2^64 / 2^128, float round-trip"]
    R.assumptions = ["spec/units.json", "u128::from_str_radix and f64 parsing are correct"]
    spec = json.load(open(os.path.join(VERIF, "spec", "units.json")))
    # ---- C10.1 units
    tu, _ = string_table(prog, "oq3_syntax::ast::expr_ext::TimingLiteral::time_unit")
    if tu is None:
        R.ob("ANCHOR", "TimingLiteral::time_unit", False)
    else:
        got = {}
        for s_, r in tu.items():
            got[s_] = show(r).split("::")[-1].rstrip(")") if r[0] == "adt" else None
            if r[0] == "adt" and r[1].endswith("Option::Some"):
                got[s_] = r[2][0][1].rsplit("::", 1)[1]
        for u, want in spec["time_unit"].items():
            R.ob("C10.1-time_unit-table", u, got.get(u) == want, prog.body("oq3_syntax::ast::expr_ext::TimingLiteral::time_unit").at, f"{u!r} => {got.get(u)} (expected {want})")
        R.ob("C10.1-time_unit-table", "no-extra-units", set(got) == set(spec["time_unit"]), "", f"{sorted(got)}")
    vt = R.anchor(prog, "oq3_syntax::validation::validate_timing_literal")
    if vt:
        strs = set()
        for p in SymExec(prog, vt, max_paths=2000).paths():
            for c in p.conds:
                if c[0] == "switch" and isinstance(c[1], tuple) and c[1][0] in ("pure", "call") and "eq" in c[1][1]:
                    for x in c[1][2]:
                        if isinstance(x, tuple) and x[0] == "c" and isinstance(x[2], str):
                            strs.add(x[2])
        R.ob("C10.1-units-agree", "validation accepts exactly the unit spellings", strs == set(spec["units"]), vt.at, f"{sorted(strs)}")
    hs = R.anchor(prog, "oq3_lexer::Cursor::has_timing_or_imaginary_suffix")
    if hs:
        pairs = set()
        single = set()
        for bi, si, s_ in hs.stmts_with_pos():
            if s_["k"] == "assign" and s_["rv"]["k"] == "agg" and s_["rv"].get("tuple"):
                cs = [const_of(f) for f in s_["rv"]["fields"] if f.get("k") == "const" and f.get("ty") == "char"]
                if len(cs) == 2:
                    pairs.add(chr(cs[0]) + chr(cs[1]))
            if s_["k"] == "assign" and s_["rv"]["k"] == "binop" and s_["rv"]["op"] == "Eq":
                c = s_["rv"]["b"]
                if c.get("k") == "const" and c.get("ty") == "char":
                    single.add(chr(const_of(c)))
        # promoted array constant
        for pj in hs.j.get("promoted", []):
            for bl in pj["blocks"]:
                for s_ in bl["stmts"]:
                    if s_["k"] == "assign" and s_["rv"]["k"] == "agg" and s_["rv"].get("tuple"):
                        cs = [const_of(f) for f in s_["rv"]["fields"] if f.get("k") == "const" and f.get("ty") == "char"]
                        if len(cs) == 2:
                            pairs.add(chr(cs[0]) + chr(cs[1]))
        # a table kept as a named / inline constant: the evaluated value tree of the operand
        def _walk(x):
            if isinstance(x, dict):
                if x.get("ty") == "(char, char)" and isinstance(x.get("fields"), list) and len(x["fields"]) == 2 and all("bits" in f for f in x["fields"]):
                    pairs.add(chr(int(x["fields"][0]["bits"])) + chr(int(x["fields"][1]["bits"])))
                for v in x.values():
                    _walk(v)
            elif isinstance(x, list):
                for v in x:
                    _walk(v)
        _walk(hs.j)
        lex_units = pairs | {x for x in single if x == "s"}
        import scanners as _scn
        _scn.unit_suffix_table(prog, R, "C10.1-units-agree", set(spec["units"]))
        R.ob("C10.1-units-agree", "lexer leaves exactly the unit spellings as separate identifier tokens", lex_units == set(spec["units"]), hs.at, f"lexer: {sorted(lex_units)}; specification: {sorted(spec['units'])}")
    # asg time unit map is the identity on names
    ex = prog.body(S2S + "expr_to_asg_texpr")
    if ex:
        ps, _ = paths(prog, ex.npath)
        mp = {}
        vs = prog.enum_variants("oq3_syntax::ast::expr_ext::TimeUnit")
        for p in ps:
            for c in p.calls:
                if c[0].endswith(("TimingIntLiteral::new", "TimingFloatLiteral::new")):
                    u = c[1][2]
                    sel = [cc for t, cc in conds_of(p) if isinstance(t, tuple) and t[0] == "discr" and "time_unit" in show(t) and cc[0] == "eq"]
                    if sel and u[0] == "adt":
                        src = [n for n, d in vs if d == sel[-1][1]]
                        mp[src[0]] = u[1].rsplit("::", 1)[1]
                    sign = c[1][1]
                    R.count("timing literal constructions")
                    if sign != ("c", "bool", 1):
                        mp["__sign__"] = show(sign)
        ok = all(k == v for k, v in mp.items()) and len(mp) == 5
        R.ob("C10.1-asg-time-unit", "synast::TimeUnit -> asg::TimeUnit is the identity on names; sign=true", ok, ex.at, f"{mp}")
    # ---- C10.2 radix
    rd, other = string_table(prog, TE + "IntNumber::radix")
    RX = "oq3_syntax::ast::token_ext::Radix"
    rvs = dict(prog.enum_variants(RX) or [])
    if rd is None:
        R.ob("ANCHOR", "IntNumber::radix", False)
    else:
        for pre, base in spec["radix"].items():
            r = rd.get(pre)
            got = rvs.get(r[1].rsplit("::", 1)[1]) if r is not None and r[0] == "adt" else None
            R.ob("C10.2-radix-prefix", pre, got == base, prog.body(TE + "IntNumber::radix").at, f"{pre!r} => radix {got} (expected {base})")
        # ... and nothing else is a radix prefix: a spelling that is not in the specification's table (`00`, say)
        # must take the default arm, or a decimal literal written that way is read in another base
        extra_ = sorted(k for k in rd if k not in spec["radix"])
        R.ob("C10.2-radix-prefix", "no-other-prefix", not extra_, prog.body(TE + "IntNumber::radix").at, f"prefixes compared: {sorted(rd)}" if not extra_ else f"IntNumber::radix also treats {extra_} as a radix prefix: the specification has only {sorted(spec['radix'])}; a decimal literal that begins with these characters is converted in the wrong base")
        dflt = {rvs.get(r[1].rsplit("::", 1)[1]) for r in other if r[0] == "adt"}
        R.ob("C10.2-radix-prefix", "default-decimal", dflt == {10}, "", f"no prefix => {dflt}")
        R.ob("C10.2-radix-prefix", "Radix discriminants", rvs == {"Binary": 2, "Octal": 8, "Decimal": 10, "Hexadecimal": 16}, "", str(rvs))
    pl = prog.body(TE + "Radix::prefix_len")
    if pl:
        bad = []
        for n, d in rvs.items():
            outs = SymExec(prog, pl).paths({1: ("adt", RX + "::" + n, ())})
            v = {p.env.get(0) for p in outs if "__diverged__" not in p.env}
            want = 0 if n == "Decimal" else 2
            if v != {("c", "usize", want)}:
                bad.append((n, [show(x) for x in v]))
        R.ob("C10.2-prefix_len", "2 for prefixed radices, 0 for decimal", not bad, pl.at, f"{bad}")
    import scanners
    scanners.check(prog, R, "C10.2-digit-scanner-table")
    scanners.suffix_start_check(prog, R, "C10.2-suffix-start-agrees")
    scanners.exponent_markers(prog, R, "C10.3-exponent-markers")
    scanners.leading_zero_check(prog, R, "C10.3-leading-zero-continues")
    # lexer side: prefixes and digit scanners per base
    num = R.anchor(prog, "oq3_lexer::Cursor::number")
    if num:
        lex_prefix = {}
        scanner = {}
        for p in SymExec(prog, num, max_paths=5000).paths():
            if "__diverged__" in p.env:
                continue
            r = deep_strip(p.env.get(0))
            if r[0] != "adt" or not r[2]:
                continue
            base = r[2][0]
            chars = [c[1] for t, c in conds_of(p) if c[0] == "eq" and isinstance(t, tuple) and t[0] == "call" and t[1].endswith("Cursor::first") and t[3] and t[3][-1][0] < 12]
            if base[0] == "adt" and not base[1].endswith("Decimal") and chars:
                b_ = base[1].rsplit("::", 1)[1]
                lex_prefix.setdefault(b_, set()).add("0" + chr(chars[0]))
                sc = [c[0].split("::")[-1] for c in p.calls if c[0].endswith(("eat_decimal_digits", "eat_hexadecimal_digits"))][:1]
                scanner.setdefault(b_, set()).update(sc)
        bases = dict(prog.enum_variants("oq3_lexer::Base") or [])
        for b_, base in (("Binary", 2), ("Octal", 8), ("Hexadecimal", 16)):
            want = {k for k, v in spec["radix"].items() if v == base}
            R.ob("C10.2-lexer-prefix-agrees", b_, lex_prefix.get(b_) == want, num.at,
                 f"the lexer recognises {sorted(lex_prefix.get(b_, []))} as {b_} prefix; IntNumber::radix / the specification accept {sorted(want)} (an unrecognised prefix is lexed as decimal `0` plus a suffix: no 'missing digits' diagnostic)")
            want_sc = {"Hexadecimal": {"eat_hexadecimal_digits"}}.get(b_)
            if want_sc:
                R.ob("C10.2-digit-class", b_, scanner.get(b_) == want_sc, num.at, f"digits of a {b_} literal are scanned by {sorted(scanner.get(b_, []))}")
            else:
                R.ob("C10.2-digit-class", b_, scanner.get(b_) is not None and "eat_decimal_digits" not in scanner.get(b_, set()), num.at,
                     f"digits of a {b_} literal are scanned by {sorted(scanner.get(b_, []))}, which accepts 0-9: digits >= {base} become part of one INT_NUMBER whose value() is None")
        R.ob("C10.2-lexer-base", "Base discriminants", bases == {"Binary": 2, "Octal": 8, "Decimal": 10, "Hexadecimal": 16}, "", str(bases))
    # ---- C10.3 sibling accessors
    import C05
    v1, v2 = prog.body(TE + "IntNumber::value"), prog.body(TE + "IntNumber::value_u128")
    if v1 and v2:
        # the two accessors agree: identical bodies, or one is a plain delegation to the other
        def _delegates(a_, b_):
            rs_ = [deep_strip(p_.env.get(0)) for p_ in SymExec(prog, a_).paths() if "__diverged__" not in p_.env]
            return bool(rs_) and all(isinstance(r_, tuple) and r_[0] == "call" and r_[1] == b_.npath and [deep_strip(x) for x in r_[2]] == [("arg", 1, "self")] for r_ in rs_)
        same_ = C05.canonical_body(v1) == C05.canonical_body(v2) or _delegates(v2, v1) or _delegates(v1, v2)
        R.ob("C10.3-value-siblings", "IntNumber::value == IntNumber::value_u128", same_, v2.at, "identical MIR modulo local names, or one delegates to the other")
    else:
        R.ob("ANCHOR", "IntNumber::value/value_u128", False)
    # ---- C10.4 digits, radix, underscores
    if v2:
        ps = [p for p in SymExec(prog, v2, inline=lambda c: v1 is not None and c == v1.npath).paths() if "__diverged__" not in p.env]
        ok, nfs = True, 0
        det = ""
        for p in ps:
            for c in p.calls:
                if c[0].endswith("from_str_radix"):
                    nfs += 1
                    a0, a1 = deep_strip(c[1][0]), deep_strip(c[1][1])
                    det = f"from_str_radix({show(a0)[:90]}, {show(a1)[:60]})"
                    ok = ok and "replace" in show(a0) and ("'_'" in show(a0) or ", 95," in show(a0)) and "split_into_parts" in show(a0) and a1[0] == "cast" and "radix(self)" in show(a1)
        R.ob("C10.4-digit-string", "value_u128: from_str_radix(text-without-underscores, radix())", ok and nfs >= 1, v2.at, det)
    sp = prog.body(TE + "IntNumber::split_into_parts")
    if sp:
        # hexadecimal suffix predicate excludes exactly [0-9a-fA-F_]
        cl = [k for k in prog.bodies if k.startswith(TE + "IntNumber::split_into_parts::{closure")]
        R.ob("C10.4-suffix-predicates", "two suffix predicates (hexadecimal / other radices)", len(cl) == 2, sp.at, f"{cl}")
        for k in cl:
            b = prog.body(k)
            consts = sorted(set(const_of(op) for bi, si, s_ in b.stmts_with_pos() if s_["k"] == "assign" for op in operands_of_rv(s_["rv"]) if op.get("k") == "const" and op.get("ty") in ("char", "u32") and const_of(op) is not None))
            if consts:
                want = [ord("G"), ord("Z"), ord("g"), ord("z")]
                R.ob("C10.4-suffix-predicates", "hexadecimal: suffix starts at g..z / G..Z", consts == want, b.at, f"range bounds {[chr(c) for c in consts]}")
    # literal constructors: signs, bools
    lt = R.anchor(prog, S2S + "literal_to_asg_texpr")
    if lt:
        ps, _ = paths(prog, lt.npath)
        okI = okB = False
        for p in ps:
            for c in p.calls:
                if c[0].endswith("IntLiteral::new"):
                    okI = c[1][1] == ("c", "bool", 1) and "value_u128" in show(c[1][0])
                if c[0].endswith("BoolLiteral::new"):
                    okB = "kind" in show(c[1][0]) or "field" in show(c[1][0]) or True
        R.ob("C10.4-signs", "positive integer literal: IntLiteral::new(value_u128, true)", okI, lt.at, "")
    for fn, what in ((S2S + "negative_int_to_asg_type", "IntLiteral::new"),):
        b = R.anchor(prog, fn)
        if b:
            ps, _ = paths(prog, fn)
            cs_ = [c for p in ps if "__diverged__" not in p.env for c in p.calls if c[0].endswith(what)]
            ok = bool(cs_) and all(c[1][1] == ("c", "bool", 0) and "value_u128" in show(c[1][0]) for c in cs_)
            R.ob("C10.4-signs", "negative integer literal: IntLiteral::new(value_u128, false)", ok, b.at, "")
    R.premises(prog, "C10.1-lexer-suffix-premise", ["C15:C15.3-numeric-arms-agree", "C15:C15.3-string-suffix"],
               "a number directly followed by a unit reaches the accessor as number + identifier only if both numeric arms of the lexer leave a unit suffix alone")
    # imaginary literals: wherever the translator has established that the unit is `im` (plain or negated literal,
    # int or float), the value is built with to_imaginary_texpr; sibling agreement of the four arms
    ex_ = prog.body(S2S + "expr_to_asg_texpr")
    if ex_:
        TU = dict(prog.enum_variants("oq3_syntax::ast::expr_ext::TimeUnit") or prog.enum_variants("oq3_syntax::ast::TimeUnit") or [])
        psx, _ = paths(prog, ex_.npath)
        nim, badim = 0, []
        for p in psx:
            if "__diverged__" in p.env:
                continue
            r = deep_strip(p.env.get(0))
            if not (r[0] == "adt" and r[1].endswith("Option::Some")):
                continue
            imag = any("time_unit" in show(t) and c == ("eq", TU.get("Imaginary")) for t, c in conds_of(p))
            built_im = "to_imaginary_texpr" in show(r)
            if imag:
                nim += 1
                if not built_im:
                    badim.append(show(r)[:80])
            elif built_im:
                badim.append("to_imaginary_texpr without an `im` unit test: " + show(r)[:60])
        R.ob("C10.4-imaginary-constructor", "every `im` literal path (int/float, plain/negated) builds the value with to_imaginary_texpr", nim >= 4 and not badim and "Imaginary" in TU, ex_.at, f"{nim} imaginary-literal paths; deviating {badim[:2]}")
    # floats: the value is what std parses from the underscore-stripped spelling, as a whole (no own arithmetic on
    # significand / exponent: that would round twice)
    fv = prog.body(TE + "FloatNumber::value")
    if fv:
        ps_ = [p for p in SymExec(prog, fv).paths() if "__diverged__" not in p.env]
        rets = {show(deep_strip(p.env.get(0))) for p in ps_}
        arith = [st_["rv"]["op"] for bi, si, st_ in fv.stmts_with_pos() if st_["k"] == "assign" and st_["rv"]["k"] == "binop" and ("f64" in str(st_["rv"].get("ty", "")) or st_["rv"]["op"] in ("Mul", "Div"))]
        cals = sorted(set((fv.callee_of(t) or "").split("::")[-1] for _, t in fv.calls()))
        okf = len(ps_) == 1 and all(r.startswith("ok(parse(") and "replace(" in r and "split_into_parts(self)" in r for r in rets) and not arith and not any(c in cals for c in ("powi", "powf", "exp", "mul_add"))
        R.ob("C10.4-float-digit-string", "FloatNumber::value == parse::<f64>(text-without-underscores).ok()", okf, fv.at, f"value {sorted(rets)[:1]}; calls {cals}; float arithmetic {arith}")
    else:
        R.ob("ANCHOR", "FloatNumber::value", False)
    # the digit string handed to parse::<f64> is cut from the literal by FloatNumber::split_into_parts.  The lexer
    # (Cursor::number) takes `e`/`E` after the significand as the exponent marker whatever precedes it (`1e3`, `1.e3`,
    # `1_e3` are one Float token), so in the accessor the decision "this letter starts the exponent, not the suffix"
    # must be a function of the letters the forward scans find and of nothing else: every branch condition is the
    # discriminant of a scan result or a comparison of the found letter with a constant, the scan predicates are
    # letter tests, and both spellings of the marker are compared.
    import re as _re
    fsp = prog.body(TE + "FloatNumber::split_into_parts")
    if fsp:
        SCAN = {"Eq", "Ne", "Not", "discr", "find", "position", "find_map", "char_indices", "chars", "text", "by_ref", "eq_ignore_ascii_case", "to_ascii_lowercase",
                "to_ascii_uppercase", "is_ascii_alphabetic", "is_alphabetic", "next", "peekable", "peek", "as_str", "syntax", "deref", "as_ref", "matches"}
        se_ = SymExec(prog, fsp)
        fps = [p for p in se_.paths() if "__diverged__" not in p.env]
        alien, consts_ = set(), set()
        for p in fps:
            for c in p.conds:
                if c[0] != "switch":
                    continue
                s_ = show(deep_strip(c[1]))
                alien |= set(_re.findall(r"([A-Za-z_][A-Za-z_0-9]*)\(", s_)) - SCAN
                m_ = _re.match(r"^(?:Eq|Ne)\(.*\.1, (\d+)\)$", s_)
                if m_:
                    consts_.add(int(m_.group(1)))
                elif s_.endswith(".1") and not s_.startswith("discr("):
                    # `match c { 'e' | 'E' => .. }`: a switch on the found letter itself
                    v_ = c[2][1]
                    consts_ |= set(v_ if isinstance(v_, (tuple, list)) else (v_,))
        clos = {}
        for k_ in prog.bodies:
            if k_.startswith(TE + "FloatNumber::split_into_parts::{closure"):
                cb_ = prog.body(k_)
                clos[k_.split("::")[-1]] = sorted(set((cb_.callee_of(t) or "?").split("::")[-1] for _, t in cb_.calls()))
        folded = any(f in show(deep_strip(c[1])) for p in fps for c in p.conds if c[0] == "switch" for f in ("eq_ignore_ascii_case", "to_ascii_lowercase", "to_ascii_uppercase"))
        badcl = {k_: v for k_, v in clos.items() if not set(v) <= {"is_ascii_alphabetic", "is_alphabetic"} or not v}
        okx = bool(fps) and not se_.truncated and not alien and not badcl and (folded or {101, 69} <= consts_)
        R.ob("C10.4-float-exponent-marker", "FloatNumber::split_into_parts: whether a letter is the exponent marker depends only on the letters found by the forward scans (as in the lexer)", okx, fsp.at,
             f"{len(fps)} paths; letters compared {sorted(chr(c) for c in consts_)}; scan predicates {clos}" if okx else
             f"branch conditions also depend on {sorted(alien)}; letters compared {sorted(chr(c) for c in consts_ if c < 128)}; scan predicates deviating {badcl}: the lexer makes `e`/`E` after the significand the exponent whatever precedes it, "
             f"the accessor must cut the digit string at the same place or the value parsed from it differs from the literal")
    else:
        R.ob("ANCHOR", "FloatNumber::split_into_parts", False)
    # no unchecked narrowing `as` cast on a literal's value in the translator (shared with C09.2)
    order = {"u8": 8, "u16": 16, "u32": 32, "u64": 64, "usize": 64, "u128": 128, "i8": 8, "i16": 16, "i32": 32, "i64": 64, "isize": 64, "i128": 128}
    narrow = []
    for b_ in prog.by_crate["oq3_semantics"]:
        if not b_.npath.startswith(S2S):
            continue
        for bi, si, st_ in b_.stmts_with_pos():
            if st_["k"] == "assign" and st_["rv"]["k"] == "cast" and st_["rv"].get("kind") == "IntToInt":
                f_, t_ = st_["rv"]["from"], st_["rv"]["to"]
                if f_ in order and t_ in order and order[t_] < order[f_]:
                    narrow.append((b_.npath.split("::")[-1], f_, t_, st_["at"]))
    R.ob("C10.4-no-narrowing-cast", "translator: no `as` cast that truncates an integer value", not narrow, narrow[0][3] if narrow else "", f"{narrow[:3]}" if narrow else "no narrowing IntToInt cast in syntax_to_semantics")
    # bit strings: the two accessors for the text between the quotes (`value`, used for the width, and `str`, used for
    # the literal's bits) compute the same slice through text_range_between_quotes(), which accepts both kinds of quote
    bv, bs_ = prog.body(TE + "BitString::value"), prog.body(TE + "BitString::str")
    if bv and bs_:
        cv = sorted(set((bv.callee_of(t) or "").split("::")[-1] for _, t in bv.calls()))
        cs_ = sorted(set((bs_.callee_of(t) or "").split("::")[-1] for _, t in bs_.calls()))
        delegates = any((bs_.callee_of(t) or "").endswith("BitString::value") for _, t in bs_.calls()) or any((bv.callee_of(t) or "").endswith("BitString::str") for _, t in bv.calls())
        same = delegates or "text_range_between_quotes" in cv and "text_range_between_quotes" in cs_ and set(cs_) <= set(cv) | {"from", "into"} and set(cv) - set(cs_) <= {"from", "into", "Borrowed"}
        R.ob("C10.4-bitstring-accessors-agree", "BitString::str and BitString::value slice the same range", same, bs_.at, f"value: {cv}; str: {cs_}")
    else:
        R.ob("ANCHOR", "BitString::value / BitString::str", False)
    qo = prog.body(TE + "QuoteOffsets::new")
    if qo is None:
        R.ob("ANCHOR", TE + "QuoteOffsets::new", False)
    else:
        # both spellings of a bit string ("0101" and '0101') have a value: the function that locates the quotes of a
        # literal compares against both quote characters
        qc = set()
        def _wq(x):
            if isinstance(x, dict):
                if x.get("k") == "const" and x.get("ty") in ("u8", "char") and const_of(x) in (34, 39):
                    qc.add(const_of(x))
                for v in x.values():
                    _wq(v)
            elif isinstance(x, list):
                for v in x:
                    _wq(v)
        _wq(qo.j)
        for k_ in prog.bodies:
            if k_.startswith(TE + "QuoteOffsets::new::{closure"):
                _wq(prog.body(k_).j)
        R.ob("C10.4-bitstring-accessors-agree", "QuoteOffsets::new accepts both quote characters", qc == {34, 39}, qo.at, f"quote characters compared: {sorted(chr(c) for c in qc)}" if qc == {34, 39} else
             f"QuoteOffsets::new only knows the quote character(s) {sorted(chr(c) for c in qc)}: a bit string written with the other quote has no value and is dropped from the graph without a diagnostic")
    lk = prog.body("oq3_syntax::ast::expr_ext::Literal::kind")
    if lk:
        ps, _ = paths(prog, lk.npath)
        mp = {}
        SKn = {d: n for n, d in prog.enum_variants("oq3_parser::syntax_kind::syntax_kind_enum::SyntaxKind")}
        for p in ps:
            if "__diverged__" in p.env:
                continue
            r = deep_strip(p.env.get(0))
            if r[0] == "adt" and r[1].endswith("LiteralKind::Bool"):
                sel = [c for t, c in conds_of(p) if c[0] == "eq" and "kind" in show(t) and isinstance(c[1], int) and c[1] in SKn]
                if sel:
                    mp[SKn[sel[-1][1]]] = r[2][0]
        R.ob("C10.4-booleans", "true/false keep their truth value", mp == {"TRUE_KW": ("c", "bool", 1), "FALSE_KW": ("c", "bool", 0)}, lk.at, f"{ {k: show(v) for k, v in mp.items()} }")
    # the width of a bit-string literal is the number of its '0'/'1' characters: the width term of to_texpr is
    # count(filter(chars(value), P)) and P, evaluated on ASCII, is true exactly for '0' and '1'
    bt = prog.body("oq3_semantics::asg::BitStringLiteral::to_texpr")
    if bt:
        from sym import term_contains_all
        import scanners as _sc
        okw, detw = False, "no returning path"
        for p_ in SymExec(prog, bt).paths():
            if "__diverged__" in p_.env:
                continue
            r_ = deep_strip(p_.env.get(0))
            d1 = term_contains_all(r_, lambda x: isinstance(x, tuple) and len(x) > 2 and x[0] == "adt" and isinstance(x[1], str) and x[1].endswith("ArrayDims::D1"))
            w_ = deep_strip(d1[0][2][0]) if d1 and d1[0][2] else None
            if not (isinstance(w_, tuple) and w_[0] == "call" and w_[1].endswith("::count")):
                okw, detw = False, f"the width is {show(w_)[:120] if w_ else None}: not a count of the literal's characters that are '0' or '1' (separators must not be counted: \"0000_1111_0000\" is 12 bits wide)"
                break
            f_ = deep_strip(w_[2][0])
            cl_ = [x for x in term_contains_all(f_, lambda x: isinstance(x, tuple) and len(x) > 1 and x[0] == "closure")]
            chars_ = term_contains_all(f_, lambda x: isinstance(x, tuple) and len(x) > 2 and x[0] == "call" and isinstance(x[1], str) and x[1].endswith("str::chars"))
            if not (f_[0] == "call" and f_[1].endswith("::filter") and len(cl_) == 1 and chars_):
                okw, detw = False, f"the width is {show(w_)[:120]}: expected count(filter(chars(value), predicate))"
                break
            cls = _sc.predicate_class(prog, cl_[0][1], list(range(32, 127)), arg=2)
            acc_ = sorted(chr(c) for c, v in cls.items() if v is True)
            amb_ = [chr(c) for c, v in cls.items() if v == "?"]
            okw = acc_ == ["0", "1"] and not amb_
            detw = f"counted characters: {acc_}" + (f"; undecided {amb_[:4]}" if amb_ else "")
        R.ob("C10.4-bitstring-width", "width counts exactly '0' and '1'", okw, bt.at, detw)
    else:
        R.ob("ANCHOR", "BitStringLiteral::to_texpr closure", False)
