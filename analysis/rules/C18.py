"""C18 — includes act as in-place textual inclusion with ordered path search (structural clauses)."""
from kernel import *
from sym import SymExec, show, deep_strip
from sema import *
import inventory
from gram import reviewed_table

SF = "oq3_source_file::source_file::"


def run(prog, R):
    R.explanation = ("Resolution order of resolve_file_path as a path table (absolute first; the given list, else the environment list, first hit wins; fall through to the given path); "
                     "the include pre-pass and the analyser select include statements by the same predicate and both skip stdgates.inc, and every selected include yields exactly one entry "
                     "(lock-step of the n-th include with the n-th parsed file); a failed read becomes a diagnostic; per-file error lists are swapped in pairs; stdgates.inc touches no file; "
                     "an include below global scope is diagnosed; panic inventory and recursion shape of the include code.")
    R.not_decided = ["the included file's statements are analysed exactly as if written in place (graph equality)", "behaviour of the OS path functions"]
    R.assumptions = ["std::fs / std::path behave as documented"]
    # ---- C18.1 resolution order
    rf = [k for k in prog.bodies if k.startswith(SF + "resolve_file_path") and "{closure" not in k]
    if not rf:
        R.ob("ANCHOR", "resolve_file_path", False)
    else:
        b = prog.body(rf[0])
        # the combinator spelling of the same search is brought to the loop's shape: `it.find_map(f)` is "advance `it`,
        # then f(element) is Some (first hit) | the iterator is exhausted"; `opt.and_then(g)` / `opt.unwrap_or(d)` branch
        # on the variant of `opt` (g is looked into)
        AND_THEN = set()
        for k_ in [rf[0]] + [k2 for k2 in prog.bodies if k2.startswith(rf[0] + "::{closure")]:
            for _, t_ in prog.body(k_).calls():
                if (prog.body(k_).callee_of(t_) or "").endswith("Option::and_then"):
                    for ty_ in t_.get("argtys", []):
                        if isinstance(ty_, dict) and "closure" in ty_:
                            AND_THEN.add(norm(ty_["closure"]))

        def _comb(se_, st, t, cal, args, site):
            if cal.endswith("::find_map") and len(args) == 2:
                nx = ("call", "<find_map as std::iter::Iterator>::next", (args[0],), site, False)
                el = ("field", nx, 0)
                hit = ("call", "{closure}::call", (args[1], ("tuple", (el,))), site, False)
                some = (("switch", ("discr", nx), ("eq", 1), "isize", site), ("switch", ("discr", hit), ("eq", 1), "isize", site))
                none = (("switch", ("discr", nx), ("eq", 0), "isize", site),)
                return [(some, hit, False), (none, ("adt", "std::option::Option::None", ()), False)]
            if cal.endswith("Option::unwrap_or") and len(args) == 2:
                a0 = deep_strip(args[0])
                if isinstance(a0, tuple) and a0[0] == "adt" and a0[1].endswith("Option::None"):
                    return [((), args[1], False)]
                if isinstance(a0, tuple) and a0[0] == "call" and a0[1] == "{closure}::call":
                    return [((), a0, False)]          # the first hit itself (its Some-ness is already on the path)
                d = ("discr", args[0])
                return [((("switch", d, ("eq", 1), "isize", site),), ("field", args[0], 0), False), ((("switch", d, ("eq", 0), "isize", site),), args[1], False)]
            if cal.endswith("Option::and_then") and len(args) == 2:
                d = ("discr", args[0])
                cl_ = deep_strip(args[1])
                outs = [((("switch", d, ("eq", 0), "isize", site),), ("adt", "std::option::Option::None", ()), False)]
                if isinstance(cl_, tuple) and cl_[0] == "closure" and prog.body(cl_[1]) is not None:
                    sub = SymExec(prog, prog.body(cl_[1]), max_visits=1, call_model=_comb, depth=se_.depth + 1, site_prefix=site)
                    for q in sub.paths({1: cl_, 2: ("field", args[0], 0)}):
                        outs.append(((("switch", d, ("eq", 1), "isize", site),) + tuple(q.conds), q.env.get(0), "__diverged__" in q.env))
                    return outs
                return None
            return None
        uses_comb = any((prog.body(k_).callee_of(t_) or "").endswith(("::find_map", "Option::and_then")) for k_ in [rf[0]] + list(AND_THEN) for _, t_ in prog.body(k_).calls())
        ps = SymExec(prog, b, max_visits=1, call_model=_comb if uses_comb else None).paths()
        rows = []
        for p in ps:
            cs = conds_of(p)
            absol = [truth(c) for t, c in cs if show(t).startswith("is_absolute(")]
            lst = [c for t, c in cs if show(t) == "discr(search_path_list)"]
            env = [c for t, c in cs if "get_file_search_paths_from_env" in show(t) and show(t).startswith("discr(get_file")]
            nxt = [c for t, c in cs if "Iterator>::next" in show(t) and show(t).startswith("discr(<")]
            hit = [c for t, c in cs if show(t).startswith("discr({closure") or ("closure" in show(t) and show(t).startswith("discr(") and "Iterator>::next" in show(t) and "resolve_file_path::{closure" in show(t))]
            ret = show(deep_strip(p.env.get(0))) if "__cut__" not in p.env and "__diverged__" not in p.env else None
            rows.append((absol, lst, env, nxt, hit, ret, "__cut__" in p.env))
            # the outcome depends on nothing else (e.g. not on whether the literal happens to name a file relative to
            # the working directory)
            known = lambda s_: s_.startswith("is_absolute(") or s_ == "discr(search_path_list)" or s_.startswith("discr(get_file") or (s_.startswith("discr(") and ("Iterator>::next" in s_ or "{closure" in s_))
            other = sorted({show(t)[:70] for t, c in cs if not known(show(t))})
            if other and "__diverged__" not in p.env:
                rows[-1] = rows[-1] + (other,)
        ok = True
        det = []
        extra_tests = sorted({o for r_ in rows if len(r_) > 7 for o in r_[7]})
        R.ob("C18.1-resolution-order", "resolution depends only on absoluteness, the list (or QASM3_PATH) and the directory probes", not extra_tests, b.at,
             "no other test on any path" if not extra_tests else f"the result also depends on {extra_tests}: a path is returned unexpanded (or expanded differently) for a reason outside the documented order, e.g. a file of that name in the working directory wins over the search list")
        rows = [r_[:7] for r_ in rows]
        for absol, lst, env, nxt, hit, ret, cut in rows:
            if cut:
                continue
            if absol == [True]:
                ok = ok and ret == "file_path" and not lst and not env
                det.append("absolute->given")
            elif lst and lst[0] == ("eq", 1):
                ok = ok and not env        # environment not consulted when a list is given
                if hit and hit[0] == ("eq", 1):
                    ok = ok and ret is not None and "closure" in ret
                    det.append("list:first-hit")
                else:
                    ok = ok and ret == "file_path"
                    det.append("list:exhausted->given")
            else:
                if env and env[0] == ("eq", 1):
                    if hit and hit[0] == ("eq", 1):
                        ok = ok and ret is not None and "closure" in ret
                        det.append("env:first-hit")
                    else:
                        ok = ok and ret == "file_path"
                        det.append("env:exhausted->given")
                else:
                    ok = ok and ret == "file_path"
                    det.append("no-list,no-env->given")
        need = {"absolute->given", "list:first-hit", "list:exhausted->given", "env:first-hit", "env:exhausted->given", "no-list,no-env->given"}
        R.ob("C18.1-resolution-order", "path table of resolve_file_path", ok and need <= set(det), b.at, f"rows {sorted(set(det))}")
        nexts = sorted(set(norm(t_.get("resolved") or "") for _, t_ in b.calls() if (t_.get("resolved") or "").endswith("::next")))
        adaptors = sorted(set((b.callee_of(t_) or "").split("::")[-1] for _, t_ in b.calls() if (b.callee_of(t_) or "").startswith(("std::iter::Iterator::", "core::iter::"))))
        fam_ = [rf[0]] + sorted(AND_THEN)
        adaptors = sorted(set((prog.body(k_).callee_of(t_) or "").split("::")[-1] for k_ in fam_ for _, t_ in prog.body(k_).calls() if (prog.body(k_).callee_of(t_) or "").startswith(("std::iter::Iterator::", "core::iter::"))))
        nfm_ = sum(1 for k_ in fam_ for _, t_ in prog.body(k_).calls() if (prog.body(k_).callee_of(t_) or "").endswith("::find_map"))
        ok_it = all(n_.startswith(("<std::slice::Iter", "<std::vec::IntoIter")) for n_ in nexts) and len(nexts) + nfm_ == 2 and not [a_ for a_ in adaptors if a_ != "find_map"]
        R.ob("C18.1-resolution-order", "directories are tried in list order", ok_it, b.at, f"iterators {nexts}; adaptors {adaptors}")
        cl = prog.body(rf[0] + "::{closure#0}")
        if cl:
            names = [(cl.callee_of(t) or "").split("::")[-1] for _, t in cl.calls()]
            R.ob("C18.1-resolution-order", "try_path = dir.join(file).is_file().then_some(..)", names[:2] == ["join", "is_file"] or ("join" in names and "is_file" in names and names.index("join") < names.index("is_file")), cl.at, f"{names}")
        ge = prog.body(SF + "get_file_search_paths_from_env")
        if ge:
            o = [const_of(a) for _, t in ge.calls() for a in t["args"] if a.get("k") == "const" and "str" in a]
            R.ob("C18.1-resolution-order", "environment variable QASM3_PATH", o == ["QASM3_PATH"], ge.at, f"{o}")
    # the environment list keeps the order in which QASM3_PATH names the directories: split_paths -> collect, nothing
    # that reorders, drops or merges entries in between
    ORDERCH = ("::rev", "::sort", "::sort_by", "::sort_by_key", "::sort_unstable", "::sort_unstable_by", "::reverse", "::swap", "::retain", "::dedup", "::dedup_by_key", "::swap_remove", "::rotate_left", "::rotate_right",
               "Vec::insert", "::pop", "::truncate", "::drain", "::split_off", "::filter", "::skip", "::take", "::step_by", "BTree", "HashSet", "HashMap", "BinaryHeap")
    envfns = [k for k in prog.bodies if k.startswith(SF + "get_file_search_paths_from_env")]
    if envfns:
        cals = [c for k in envfns for c in [(prog.body(k).callee_of(t) or "") for _, t in prog.body(k).calls()]]
        badc = sorted(set(c for c in cals if c.endswith(ORDERCH) or any(x in c for x in ("BTree", "HashSet", "HashMap", "BinaryHeap", "sort", "dedup"))))
        okc = any(c.endswith("env::split_paths") for c in cals) and any(c.endswith("::collect") for c in cals) and not badc
        R.ob("C18.1-resolution-order", "QASM3_PATH directories are kept in the order given", okc, prog.body(envfns[0]).at, f"calls {sorted(set(c.split('::')[-1] for c in cals))}" + (f"; order-changing: {badc}" if badc else ""))
    # ---- C18.2 lock-step
    pre = prog.body(SF + "parse_included_files::{closure#0}")
    s2s = [k for k in prog.bodies if k.startswith(S2S + "syntax_to_semantic") and "{closure" not in k]
    if pre and s2s:
        ana = prog.body(s2s[0])

        def consts(b):
            out = set()
            for bi, t in b.calls():
                for a in t["args"]:
                    for o in origins(prog, b, a, max_depth=3):
                        if o[0] == "const" and isinstance(o[2], str) and o[1] in ("&str", "&&str"):
                            out.add(o[2])
            return out
        c1, c2 = consts(pre), consts(ana)
        R.ob("C18.2-lock-step", "both sides compare the path with the same constant", "stdgates.inc" in c1 and "stdgates.inc" in c2, pre.at, f"pre-pass {sorted(c1)}; analyser {sorted(x for x in c2 if 'inc' in x)}")
        # the skip predicate itself must be the same term on both sides: String == "stdgates.inc" applied directly
        # to Include::file().to_string() (no normalisation of the path on one side only), and in the pre-pass the
        # closure yields None exactly when it holds
        def chain(t):
            out = []
            while isinstance(t, tuple):
                if t[0] == "field":
                    t = t[1]
                elif t[0] in ("call", "pure") and t[1].endswith("Try>::branch"):
                    t = t[2][0]
                elif t[0] in ("call", "pure") and t[1].startswith("oq3_syntax::ast::"):
                    out.append(t[1].split("::", 2)[2])
                    t = t[2][0] if t[2] else None
                else:
                    break
            return tuple(out)

        def skip_preds(b, **kw):
            preds, rows = set(), []
            for p_ in SymExec(prog, b, **kw).paths():
                if "__diverged__" in p_.env:
                    continue
                here = []
                for t, c in conds_of(p_):
                    if isinstance(t, tuple) and t[0] in ("pure", "call") and any(isinstance(a, tuple) and a[0] == "c" and a[2] == "stdgates.inc" for a in t[2]):
                        other = [a for a in t[2] if not (isinstance(a, tuple) and a[0] == "c")]
                        preds.add((t[1], chain(other[0]) if other else ()))
                        here.append(truth(c))
                rows.append((here, p_))
            return preds, rows
        pp, prow = skip_preds(pre)
        ap, _ = skip_preds(ana, max_visits=1, max_paths=5000)
        want = {("<std::string::String as std::cmp::PartialEq<&str>>::eq", ("expr_ext::FilePath::to_string", "Include::file"))}
        R.ob("C18.2-lock-step", "skip predicate is String == \"stdgates.inc\" on Include::file().to_string(), identically on both sides", pp == want and ap == want, pre.at, f"pre-pass {sorted(pp)}; analyser {sorted(ap)}")
        badp = []
        for here, p_ in prow:
            rv = show(deep_strip(p_.env.get(0)))
            if "FromResidual" in rv.split("(")[0]:
                rv = "Option::None(?)"
            if here and (rv.startswith("Option::None") != bool(here[0])):
                badp.append((here, rv[:60]))
            if not here and not rv.startswith("Option::None"):
                badp.append(("no-skip-test", rv[:60]))
        R.ob("C18.2-lock-step", "pre-pass yields no entry exactly for stdgates.inc (and for non-include / unreadable path literal)", not badp and any(h for h, _ in prow), pre.at, f"{len(prow)} paths; {badp[:2]}")
        # both sides walk the same statement sequence: the top-level statements of the file, in order, once
        pif = prog.body(SF + "parse_included_files")
        if pif:
            chain = None
            for p_ in SymExec(prog, pif).paths():
                for nm, a_, bb_ in p_.calls:
                    if nm.endswith("Iterator::collect") and a_:
                        chain = deep_strip(a_[0])
            names = []
            t_ = chain
            while isinstance(t_, tuple) and t_[0] in ("call", "pure"):
                names.append(t_[1].split("::")[-1] if not t_[1].startswith("oq3_") else t_[1].split("::", 1)[1])
                t_ = deep_strip(t_[2][0]) if t_[2] else None
            want_chain = ["filter_map", "SourceFile::statements", "ParseOrErrors::tree"]
            R.ob("C18.2-lock-step", "pre-pass walks the top-level statements once, in order", names == want_chain, pif.at,
                 f"iterator chain feeding the list of included files: {names} (expected {want_chain}: a different traversal, e.g. all descendants, yields entries for includes that the analyser does not consume at that position)")
        a1 = [(pre.callee_of(t) or "").split("::")[-1] for _, t in pre.calls()]
        a2 = [(ana.callee_of(t) or "").split("::")[-1] for _, t in ana.calls()]
        R.ob("C18.2-lock-step", "both sides read the path via Include::file().to_string()", all(x in a1 for x in ("file", "to_string")) and all(x in a2 for x in ("file", "to_string")), ana.at, "")
        # pre-pass: an Include with a readable path literal other than stdgates.inc yields exactly one SourceFile (parse_one_included is Some on all paths)
        po = [k for k in prog.bodies if k.startswith(SF + "parse_included_files::parse_one_included")]
        if po:
            b = prog.body(po[0])
            ps = [p for p in SymExec(prog, b).paths() if "__diverged__" not in p.env]
            # (a version that returns the SourceFile itself, wrapped in Some by its only caller, yields one as well)
            direct = "Option<" not in str(b.local_ty(0))
            ok = bool(ps) and (direct or all(show(deep_strip(p.env.get(0))).startswith("Option::Some") for p in ps))
            R.ob("C18.2-lock-step", "parse_one_included returns Some on every path", ok, b.at, f"{len(ps)} paths")
            # the text that is parsed for an included file is the text read from it, on every path where the read
            # succeeded (no path substitutes another or an empty text without an include error)
            badt, nt = [], 0
            for p in ps:
                if any(c[0].endswith("io::Error::kind") or c[0].endswith("Error::kind") for c in p.calls):
                    continue
                nt += 1
                pc = [c for c in p.calls if "parse_source_and_includes" in c[0]]
                if len(pc) != 1 or "read_to_string(" not in show(deep_strip(pc[0][1][0])):
                    if "IncludeError" not in show(deep_strip(p.env.get(0))):
                        badt.append([show(deep_strip(c[1][0]))[:80] for c in pc] or "not parsed")
            R.ob("C18.2-lock-step", "the text parsed for an included file is the text read from it", nt >= 1 and not badt, b.at,
                 f"{nt} path(s) with a successful read" if nt >= 1 and not badt else f"a path with a successful read parses {badt[:2]} instead of the file's text, without an include error: the statements of that include silently vanish from the program")
            # a file counts as unreadable exactly when reading it failed: the Result whose Ok/Err is tested is the value of
            # fs::read_to_string(full_path) itself (no and_then / map_err that manufactures an error for a readable file)
            tested = sorted({show(t)[:120] for p in ps for t, c in conds_of(p) if isinstance(t, tuple) and t[0] == "discr" and "read_to_string" in show(t)})
            okrd = bool(tested) and all(t_.startswith("discr(read_to_string(") or t_.startswith("discr(std::fs::read_to_string(") for t_ in tested)
            R.ob("C18.3-failure-is-diagnostic", "the tested read result is fs::read_to_string(full_path) itself", okrd, b.at, f"{tested}" if okrd else
                 f"parse_one_included branches on {tested}: an error can be manufactured for a file that was read successfully (e.g. a second include of the same file reported as unreadable)")
            # C18.3: read error -> IncludeError with the io kind
            errp = [p for p in ps if any(c[0].endswith("io::Error::kind") or c[0].endswith("Error::kind") for c in p.calls)]
            ok3 = bool(errp) and all("IncludeError" in show(deep_strip(p.env.get(0))) for p in errp) and all(not any("parse_source_and_includes" in c[0] for c in p.calls) for p in errp)
            R.ob("C18.3-failure-is-diagnostic", "read_to_string error => SourceFile with IncludeError{error.kind(), include}", ok3, b.at, f"{len(errp)} error paths")
        # analyser: included_iter.next() exactly once per non-stdgates include
        ps = SymExec(prog, ana, max_visits=1, max_paths=5000).paths()
        bad = []
        n = 0
        for p in ps:
            nx = [c for c in p.calls if c[0].endswith("Iterator>::next") and "included(" in show(c[1][0])]
            isinc = [c for t, c in conds_of(p) if isinstance(t, tuple) and t[0] == "discr" and "Iterator>::next" in show(t) and "statements" in show(t)]
            std = [truth(c) for t, c in conds_of(p) if isinstance(t, tuple) and t[0] in ("pure", "call") and "eq" in t[1] and "stdgates.inc" in show(t)]
            if std:
                n += 1
                if len(nx) != (0 if std[0] else 1):
                    bad.append((std, len(nx)))
        R.ob("C18.2-lock-step", "analyser advances included_iter once per non-stdgates include", not bad and n >= 2, ana.at, f"{n} include paths; {bad[:2]}")
        # C18.3 in the analyser: include_error => from_io_error on the path node; C12.3 swap pairing
        # on every path: include_error() is Some  <=>  from_io_error + insert_error and no recursive analysis;
        # None <=> the recursive call; both keep the include's error list (push_errors_from_included_file)
        badi, ni = [], 0
        for p in ps:
            if "__diverged__" in p.env:
                continue
            ie = [c for t, c in conds_of(p) if isinstance(t, tuple) and t[0] == "discr" and "include_error(" in show(t)]
            if not ie:
                continue
            ni += 1
            some = ie[0] == ("eq", 1) or (ie[0][0] == "ne" and 0 in (ie[0][1] if isinstance(ie[0][1], tuple) else (ie[0][1],)))
            nm = [c[0] for c in p.calls]
            has_from = any(x.endswith("SemanticErrorKind::from_io_error") for x in nm)
            after = nm[max(i for i, x in enumerate(nm) if x.endswith("include_error")):]
            has_ins = any(x.endswith("Context::insert_error") for x in after)
            rec = any(x == ana.npath for x in nm)
            keep = any(x.endswith("Context::push_errors_from_included_file") for x in after)
            if some and not (has_from and has_ins and not rec and keep):
                badi.append(("read failure", has_from, has_ins, rec, keep))
            if not some and not (rec and keep and not has_from):
                badi.append(("readable file", has_from, has_ins, rec, keep))
        R.ob("C18.3-failure-is-diagnostic", "include_error => insert_error(from_io_error(kind), path node)", ni >= 2 and not badi, ana.at,
             f"{ni} include paths: a read failure is diagnosed and not analysed, a readable file is analysed; both keep the file's error list" if ni >= 2 and not badi else
             f"{ni} include paths; offending (case, from_io_error, insert_error, recursive analysis, list kept): {badi[:3]}")
        reps = [bi for bi, t in ana.calls() if (ana.callee_of(t) or "").endswith("mem::replace")]
        dom = ana.dominators()
        swaps = [bi for bi, t in ana.calls() if (ana.callee_of(t) or "").endswith(("mem::swap", "mem::take", "mem::replace"))]
        okr = len(reps) == 2 and len(swaps) == 2 and reps[0] in dom[reps[1]] and all(reps[1] in dom[e] for e in ana.exits())
        R.ob("C18.2-per-file-error-lists", "the error list is swapped in at entry and swapped back before every return", okr, ana.at, f"mem::replace call blocks {reps}; all swap/take/replace call blocks {swaps} (exactly the entry/exit pair may exchange the error list)")
        # one item per include: the value taken from included_iter is the file whose path labels the list, whose read
        # error is tested and which is analysed recursively (no other way of choosing the file, e.g. a search by name)
        items = set()
        for p in ps:
            if "__diverged__" in p.env:
                continue
            for c in p.calls:
                if c[0].endswith("SemanticErrorList::new"):
                    t_ = deep_strip(c[1][0])
                    while isinstance(t_, tuple) and t_[0] == "call" and t_[1].endswith(("to_path_buf", "file_path", "to_owned", "clone", "into")) and t_[2]:
                        t_ = deep_strip(t_[2][0])
                    items.add(("list label", show(t_)))
                elif c[0] == ana.npath or c[0].endswith("include_error"):
                    items.add(("analysed" if c[0] == ana.npath else "read error tested", show(deep_strip(c[1][0]))))
        vals = {v for _, v in items}
        one = len(vals) == 1 and {k for k, _ in items} == {"list label", "analysed", "read error tested"} and all(v.endswith("next(iter(included(parsed_source)))") or "Iterator>::next(" in v and "find" not in v and "unwrap_or" not in v for v in vals)
        R.ob("C18.2-per-file-error-lists", "the file taken from included_iter is the one labelled, tested and analysed", one, ana.at,
             f"{sorted(items)}"[:300] if one else f"the list label, the read-error test and the recursive analysis do not all use the single item taken from included_iter: {sorted(items)[:4]}: an include can be paired with another file's pre-parsed source")
        els = {show(c[1][0]) for p in ps for c in p.calls if c[0].endswith("SemanticErrorList::new")}
        # the path is read from the item the analyser has just taken from included_iter (not from the including file)
        el = bool(els) and all("file_path(" in e and "next(" in e and "file_path(parsed_source" not in e and "file_path(arg" not in e for e in els)
        R.ob("C18.2-per-file-error-lists", "the list for an included file is created with that file's path", el, ana.at, f"SemanticErrorList::new arguments on all paths: {sorted(els)[:3]}" if el else
             f"an error list for an included file is created with {sorted(els)[:2]}: not the path of the file taken from included_iter, so its diagnostics are attributed to (and rendered against the text of) another file")
        pe = [any(c[0].endswith("Context::push_errors_from_included_file") for c in p.calls) for p in ps
              if "__diverged__" not in p.env and any(c[0].endswith("SemanticErrorList::new") for c in p.calls)]
        R.ob("C18.2-per-file-error-lists", "included diagnostics are kept in the parent's include list", bool(pe) and all(pe), ana.at, f"{len(pe)} path(s) that create a list for an included file; each hands it to push_errors_from_included_file")
        # C18.5 stdgates without a file
        bad5 = []
        for p in ps:
            std = [truth(c) for t, c in conds_of(p) if isinstance(t, tuple) and t[0] in ("pure", "call") and "eq" in t[1] and "stdgates.inc" in show(t)]
            if std and std[0]:
                names = [c[0] for c in p.calls]
                if not any(x.endswith("Context::standard_library_gates") for x in names) or any("fs::" in x or "Iterator>::next" in x and "SourceFile" in x for x in names):
                    bad5.append(names[-4:])
        R.ob("C18.5-stdgates-without-file", "stdgates.inc => Context::standard_library_gates, no file access", not bad5, ana.at, f"{bad5[:2]}")
    else:
        R.ob("ANCHOR", "include pre-pass / analyser", False)
    R.premises(prog, "C18.2-in-place-premise", ["C06:C06.4-", "C07:C07.1-"], "an included file is analysed as if written in place: state that crosses the include boundary (pending annotations, open scopes) is handled by the same code as inside one file")
    # diagnostics of files at any include depth are reported: the queries over the tree of error lists recurse
    for qfn in ("oq3_semantics::semantic_error::SemanticErrorList::any_semantic_errors",):
        qb = prog.body(qfn)
        if qb is None:
            R.ob("ANCHOR", qfn, False)
            continue
        cone = prog.cone([qfn])
        rec = any((prog.body(f).callee_of(t) or "") == qfn for f in cone if prog.body(f) for _, t in prog.body(f).calls())
        incl = any((prog.body(f).callee_of(t) or "").endswith("include_errors") for f in cone if prog.body(f) for _, t in prog.body(f).calls())
        R.ob("C18.3-failure-is-diagnostic", "any_semantic_errors recurses into the lists of included files", rec and incl, qb.at, f"recursive call: {rec}; walks include_errors(): {incl} (a diagnostic two include levels down must make the program erroneous)")
    # ---- C18.4 below-global include
    st = prog.body(S2S + "stmt_to_asg_stmt")
    if st:
        ps, _ = paths(prog, st.npath)
        ninc, silent = 0, []
        for p in ps:
            if arm_of(prog, p, STMT_ENUM, "stmt") == "Include":
                if "__diverged__" in p.env:
                    continue        # the `unreachable!()` of the global-scope case (top-level includes never get here: C03.1 reviewed entry)
                ninc += 1
                if not (errors_on(p) == ["IncludeNotInGlobalScopeError"] and show(deep_strip(p.env.get(0))) == "Option::None"):
                    silent.append(([(show(t)[-40:], c) for t, c in conds_of(p)][-2:], errors_on(p)))
        R.ob("C18.4-include-below-global", "nested Include => IncludeNotInGlobalScopeError, no statement", ninc >= 1 and not silent, st.at,
             f"{ninc} returning path(s) of the Include arm, each reports the diagnostic" if not silent else f"a returning path of the Include arm reports nothing: {silent[:2]} (an include in a def/gate body would be dropped silently)")
    R.premises(prog, "C18.5-stdgates-premise", ["C09:C09.4-stdgates"], "`include \"stdgates.inc\"` acts as if the library's text were there only if Context::standard_library_gates binds every gate of the library with its arity, whatever is already bound (a name that is taken is reported, the others are still bound)")
    # ---- C18.1 the search list given by the caller is the one every nested include is resolved with
    # Every function of the source-file crate that receives the list (a parameter of type Option<&[P]>) and calls another
    # function of the crate that receives one passes its own parameter on, unchanged, on every path.  A list that is
    # rebuilt on the way down (a directory prepended, the order changed, the list dropped) makes a file included from an
    # included file resolve differently from the same include written in the main file.
    def _list_param(b_):
        return [i for i, l in enumerate(b_.j["locals"][1:1 + b_.j.get("nargs", 0)]) if (l.get("ty") or "").replace(" ", "").startswith("std::option::Option<&[") and l.get("name")]
    takers = {k: _list_param(prog.body(k)) for k in prog.bodies if k.startswith("oq3_source_file::") and "{closure" not in k}
    takers = {k: v for k, v in takers.items() if v}
    handed, badh = 0, []
    # closures of a taker that capture the list: upvar field -> the parent's parameter
    units = [(k, prog.body(k), {prog.body(k).j["locals"][1 + idx[0]]["name"]}) for k, idx in sorted(takers.items())]
    for k, idx in sorted(takers.items()):
        b_ = prog.body(k)
        pl_ = 1 + idx[0]
        for bi, si, st_ in b_.stmts_with_pos():
            if st_["k"] == "assign" and st_["rv"]["k"] == "agg" and st_["rv"].get("closure") in prog.bodies:
                names = set()
                for fi, f_ in enumerate(st_["rv"].get("fields", [])):
                    l_ = (f_.get("pl") or {}).get("l")
                    if l_ == pl_ and not f_["pl"]["p"]:
                        names.add(f"arg1.{fi}")
                    defs = [s2["rv"] for _, _, s2 in b_.stmts_with_pos() if s2["k"] == "assign" and s2["lhs"]["l"] == l_ and not s2["lhs"]["p"]]
                    if len(defs) == 1 and defs[0]["k"] in ("ref", "use") and (defs[0].get("pl") or defs[0].get("op", {}).get("pl") or {}).get("l") == pl_:
                        names.add(f"arg1.{fi}")
                if names:
                    units.append((st_["rv"]["closure"], prog.body(st_["rv"]["closure"]), names))
    for k, b_, own in units:
        se_ = SymExec(prog, b_, max_visits=1)
        for p_ in se_.paths():
            for c in p_.calls:
                if c[0] in takers:
                    ci = takers[c[0]][0]
                    if ci < len(c[1]):
                        handed += 1
                        a_ = show(deep_strip(c[1][ci]))
                        if a_ not in own:
                            badh.append((k.split("::", 2)[-1], c[0].split("::")[-1], a_[:120]))
    badh = sorted(set(badh))
    R.ob("C18.1-list-handed-down", "every function that receives the search list passes it on unchanged to resolve_file_path and to the parsing of nested includes", handed >= 6 and not badh and len(takers) >= 4,
         prog.body(SF + "parse_included_files").at if prog.body(SF + "parse_included_files") else "",
         f"{len(takers)} functions take the list; {handed} hand-over sites on all paths, each passes the function's own parameter" if not badh else
         f"(caller, callee, argument) {badh[:3]}: the list a nested include is resolved with is not the caller's list, so the include is not resolved to the first directory of the given list that contains the file")
    # ---- C18.6 recursion shape and inventory
    cg = prog.callgraph()
    inc_fns = [k for k in prog.bodies if k.startswith(SF + "parse_included_files") or k == SF + "parse_source_and_includes"]
    cyc = any(SF + "parse_source_and_includes" in prog.cone([f]) for f in cg.get(SF + "parse_source_and_includes", ()))
    R.ob("C18.6-include-recursion", "parse_source_and_includes recursion is guarded (visited set / depth bound)", not cyc, prog.body(SF + "parse_source_and_includes").at if prog.body(SF + "parse_source_and_includes") else "",
         "parse_source_and_includes -> parse_included_files -> parse_one_included -> parse_source_and_includes recurses on file *contents* with no visited set or depth limit: a file that (transitively) includes itself recurses until the stack overflows")
    reviewed = reviewed_table()
    import inventory as inv
    rv = {k: v for k, v in reviewed.items() if k.startswith("C18.6-inventory:")}
    fns = [k for k in prog.bodies if k.startswith(SF) and ("include" in k or "resolve_file_path" in k or "SourceFile::new" in k or "get_file_search" in k or "parse_source_and_includes" in k)]
    n = inv.classify(prog, R, "C18.6-inventory", fns, rv)
    R.floor("include-related functions inspected", len(fns), 6)
