"""C09 — declared symbols carry exactly the declared type (table and provenance clauses)."""
import json, os
from kernel import *
from sym import SymExec, show, deep_strip, strip_transparent
from sema import *
from gram import VERIF
import inventory

T = "oq3_semantics::types::"
SKIND = "oq3_syntax::ast::type_ext::ScalarTypeKind"



FILTERING = ("::flatten", "::filter", "::filter_map", "::flat_map", "::take", "::skip", "::take_while", "::skip_while", "::step_by", "::dedup", "::retain", "::flatten>", "::find")


def count_term_ok(prog, term, binder, depth=0):
    """The recorded arity is the length of the bound parameter list: the term is 0, or mentions the result of
    `binder(..)` under a length call with no filtering adaptor in between; a local helper function is looked into."""
    from sym import term_contains_all
    t = deep_strip(term)
    if isinstance(t, tuple) and t[0] == "c" and t[2] == 0:
        return True, "0"
    calls = term_contains_all(t, lambda x: isinstance(x, tuple) and len(x) > 2 and x[0] in ("call", "pure") and isinstance(x[1], str))
    names = [c[1] for c in calls]
    if binder is not None and not any(n.endswith(binder) for n in names):
        return False, f"does not mention {binder}"
    filt = [n for n in names if n.endswith(FILTERING) or any(f + "<" in n for f in FILTERING)]
    if filt:
        return False, f"goes through {sorted(set(x.split('::')[-1] for x in filt))}: entries of the list are skipped before they are counted"
    if any(n.endswith("::len") for n in names):
        return True, "len"
    # a helper of the analyser: its result must satisfy the same rule on its parameter
    for c in calls:
        hb = prog.body(c[1]) if c[1].startswith("oq3_semantics::") else None
        if hb is not None and depth < 2 and not c[1].endswith(binder or "\0"):
            rs = [deep_strip(p_.env.get(0)) for p_ in SymExec(prog, hb, max_visits=1, max_paths=200).paths() if "__diverged__" not in p_.env]
            res = [count_term_ok(prog, r_, None, depth + 1) for r_ in rs]
            if rs and all(o for o, _ in res):
                return True, "helper " + c[1].split("::")[-1]
            return False, f"helper {c[1].split('::')[-1]}: " + "; ".join(w for o, w in res if not o)[:160]
    return False, "no length of the list"

def run(prog, R):
    R.explanation = ("Type construction table of scalar_type_to_type (kind -> constructor with the designator's width and the caller's const flag; bit/qubit + width -> arrays), "
                     "const-ness provenance per caller, parameter types of gates/subroutines, absence of unchecked narrowing integer casts in the translator, the const side table is "
                     "filled on every declaration path with an initializer, gate arity and subroutine signature provenance, the standard-library gate table, and the gate listing filter.")
    R.not_decided = ["widths as values over [1, 2^33]", "array types (Type::ToDo)"]
    R.assumptions = ["spec/stdgates.json", "rustc MIR; path enumerator"]
    st = R.anchor(prog, S2S + "scalar_type_to_type")
    if st:
        ps, _ = paths(prog, st.npath)
        kinds = prog.enum_variants(SKIND) or prog.enum_variants("oq3_syntax::ast::type_ext::ScalarTypeKind")
        if not kinds:
            cand = [k for k in prog.adts if k.endswith("ScalarTypeKind")]
            kinds = prog.enum_variants(cand[0]) if cand else []
        kd = {d: n for n, d in kinds}
        rows = {}
        for p in ps:
            if "__diverged__" in p.env:
                continue
            sel = [c for t, c in conds_of(p) if isinstance(t, tuple) and t[0] == "discr" and "kind(" in show(t) and c[0] == "eq"]
            if not sel:
                continue
            k = kd.get(sel[-1][1])
            w = [c for t, c in conds_of(p) if isinstance(t, tuple) and t[0] == "discr" and "designator_to_asg" in show(t)]
            r = deep_strip(p.env.get(0))
            rows.setdefault(k, []).append((w[-1] if w else None, r))
        simple = {"Angle": "Angle", "Complex": "Complex", "Float": "Float", "Int": "Int", "UInt": "UInt"}
        flagonly = {"Bool": "Bool", "Duration": "Duration", "Stretch": "Stretch"}
        isconst = lambda t: isinstance(t, tuple) and (t == ("arg", 2, "isconst") or (t[0] in ("call", "pure") and ("into" in t[1] or "from" in t[1]) and t[2][0] == ("arg", 2, "isconst")))
        for k, ctor in simple.items():
            rs = rows.get(k, [])
            ok = len(rs) >= 1 and all(r[1][0] == "adt" and r[1][1] == T + "Type::" + ctor and "designator_to_asg" in show(r[1][2][0]) and isconst(r[1][2][1]) for r in rs)
            R.ob("C09.1-type-table", k, ok, st.at, f"{k} => {[show(r[1])[:90] for r in rs]}")
        for k, ctor in flagonly.items():
            rs = rows.get(k, [])
            ok = len(rs) >= 1 and all(r[1][0] == "adt" and r[1][1] == T + "Type::" + ctor and isconst(r[1][2][0]) for r in rs)
            R.ob("C09.1-type-table", k, ok, st.at, f"{k} => {[show(r[1])[:90] for r in rs]}")
        for k, (scalar, arr) in {"Bit": ("Bit", "BitArray"), "Qubit": ("Qubit", "QubitArray")}.items():
            rs = rows.get(k, [])
            got = {}
            for w, r in rs:
                got["Some" if w == ("eq", 1) else "None"] = r
            oks = "None" in got and got["None"][0] == "adt" and got["None"][1] == T + "Type::" + scalar
            oka = "Some" in got and got["Some"][0] == "adt" and got["Some"][1] == T + "Type::" + arr and "ArrayDims::D1" in show(got["Some"][2][0]) and "designator_to_asg" in show(got["Some"][2][0])
            if k == "Bit":
                # classical registers carry the declaration's const flag in both forms (qubits have none)
                oks = oks and len(got["None"][2]) == 1 and isconst(deep_strip(got["None"][2][0]))
                oka = oka and len(got["Some"][2]) == 2 and isconst(deep_strip(got["Some"][2][1]))
            R.ob("C09.1-type-table", k, oks and oka, st.at, f"{k}: no width => {show(got.get('None'))[:50]}; width => {show(got.get('Some'))[:90]}")
        R.floor("scalar type kinds in the table", len(rows), 10)
    # const-ness per caller
    want_const = {"classical_declaration_statement_to_asg_stmt": "const_token", "io_declaration_statement_to_asg_stmt": "false", "param_type_to_type": "arg"}
    for k, b in prog.bodies.items():
        if b.crate != "oq3_semantics":
            continue
        for bi, t in b.calls():
            if b.callee_of(t) == S2S + "scalar_type_to_type":
                a = t["args"][1]
                o = origins(prog, b, a)
                desc = "const_token" if any(x[0] == "call" and (x[1] or "").endswith(("const_token", "is_some")) for x in o) else ("arg" if any(x[0] == "arg" for x in o) else ("true" if ("const", "bool", "1") in o else ("false" if ("const", "bool", "0") in o else "?")))
                fn = k.split("::")[-1] if "{closure" not in k else k.split("::")[-2] + "::closure"
                exp = {"classical_declaration_statement_to_asg_stmt": "const_token", "io_declaration_statement_to_asg_stmt": "false", "param_type_to_type": "arg"}.get(fn)
                if fn == "stmt_to_asg_stmt":
                    exp = "false"      # loop variable
                if fn == "expr_to_asg_texpr":
                    exp = "true"       # cast target type
                if fn.startswith("stmt_to_asg_stmt::closure"):
                    exp = "true"       # return type of a subroutine
                R.ob("C09.1-constness-provenance", f"{fn}:{desc}", exp == desc, t["at"], f"const flag passed by {fn}: {desc} (expected {exp})")
    # gate parameter types
    s2s = R.anchor(prog, S2S + "stmt_to_asg_stmt")
    if s2s:
        ps, _ = paths(prog, s2s.npath)
        def_rows = []
        seen = set()
        for p in ps:
            if arm_of(prog, p, STMT_ENUM, "stmt") == "Gate" and "__diverged__" not in p.env:
                bl = calls_named(p, "bind_parameter_list")
                desc = tuple((show(deep_strip(c[1][0]))[:40], show(deep_strip(c[1][1]))[:60]) for c in bl)
                if desc in seen:
                    continue
                seen.add(desc)
                ok = len(bl) == 2 and "angle_params" in desc[0][0] and desc[0][1].startswith("Type::Angle(Option::None, IsConst::True") and "qubit_params" in desc[1][0] and desc[1][1] == "Type::Qubit"
                R.ob("C09.1-gate-parameter-types", "angle params: Angle(None, const); qubit params: Qubit", ok, s2s.at, f"{desc}")
                # arity provenance
                nb = [c for c in p.calls if c[0].endswith("Context::new_binding")]
                ty = deep_strip(nb[-1][1][2]) if nb else None
                oka = ty is not None and ty[0] == "adt" and ty[1] == T + "Type::Gate" and ("angle_params" in show(ty[2][0]) or show(ty[2][0]) == "0") and "qubit_params" in show(ty[2][1]) and "len" in show(ty[2][1])
                if oka:
                    o1, w1 = count_term_ok(prog, ty[2][0], "bind_parameter_list")
                    o2, w2 = count_term_ok(prog, ty[2][1], "bind_parameter_list")
                    if not (o1 and o2):
                        oka = False
                        R.ob("C09.4-gate-arity", f"count:{len(seen)}", False, s2s.at, f"the recorded number of {'angle parameters' if not o1 else 'qubits'} is not the length of the bound list: {w1 if not o1 else w2} (`gate g(a, a) q {{}}` would be recorded with one parameter while its definition has two)")
                R.ob("C09.4-gate-arity", f"Gate(#angle params, #qubit params):{len(seen)}", oka, s2s.at, f"{show(ty)[:160]}")
            if arm_of(prog, p, STMT_ENUM, "stmt") == "Def" and "__diverged__" not in p.env:
                nb = [c for c in p.calls if c[0].endswith("Context::new_binding")]
                ty = deep_strip(nb[-1][1][2]) if nb else None
                if ty is not None and show(ty) not in seen:
                    seen.add(show(ty))
                    s_ = show(ty)
                    sd = deep_strip(ty[2][0]) if ty[0] == "adt" and ty[2] else None
                    npar = sd[2][0] if isinstance(sd, tuple) and sd[0] == "adt" and sd[2] else None
                    # no list written: the path on which the bound list is None records 0 parameters
                    none_list = any("bind_typed_parameter_list" in show(t_) and c_ == ("eq", 0) for t_, c_ in conds_of(p) if isinstance(t_, tuple) and t_[0] == "discr")
                    zero = isinstance(npar, tuple) and deep_strip(npar) == ("c", deep_strip(npar)[1], 0) if isinstance(npar, tuple) and deep_strip(npar)[0] == "c" else False
                    ok = ty[0] == "adt" and ty[1] == T + "Type::SubroutineDef" and ("return_signature" in s_ or "Type::Void" in s_) and ("typed_param_list" in s_ or (zero and none_list))
                    if ok and not (zero and none_list):
                        o1, w1 = count_term_ok(prog, npar, "bind_typed_parameter_list") if npar is not None else (False, "num_params field not found")
                        if not o1:
                            ok = False
                            s_ = f"num_params is not the length of the bound parameter list: {w1}; " + s_
                    def_rows.append((ok, s_[:260]))
    R.ob("C09.4-subroutine-signature", "SubroutineDef{num_params <- typed params, return_type <- return signature | Void}", bool(def_rows) and all(o for o, _ in def_rows), s2s.at,
         "; ".join(d for o, d in def_rows if not o)[:300] or f"{len(def_rows)} distinct recorded signatures: {def_rows[0][1][:160] if def_rows else ''}")
    # a qubit declaration records a register of the written length exactly when a length is written: the recorded
    # type is QubitArray(D1(w)) on the paths where designator_to_asg gave Some(w) and Qubit where it gave None, and
    # no other test (e.g. on the value of w) takes part
    rows_q = set()
    for p in ps:
        if "__diverged__" in p.env or arm_of(prog, p, STMT_ENUM, "stmt") != "QuantumDeclarationStatement":
            continue
        nb = [c for c in p.calls if c[0].endswith("Context::new_binding")]
        if not nb:
            continue
        ty = show(deep_strip(nb[-1][1][2]))
        cs = tuple(sorted((show(t)[:90], str(c)) for t, c in conds_of(p) if "designator_to_asg" in show(t)))
        rows_q.add((ty[:110], cs))
    okq = bool(rows_q) and all((ty.startswith("Type::QubitArray(ArrayDims::D1(") and "designator_to_asg(" in ty and len(cs) == 1 and cs[0][0].startswith("discr(designator_to_asg(") and cs[0][1] == "('eq', 1)")
                               or (ty == "Type::Qubit" and len(cs) == 1 and cs[0][0].startswith("discr(designator_to_asg(") and cs[0][1] == "('eq', 0)") for ty, cs in rows_q) and len(rows_q) == 2
    R.ob("C09.1-qubit-register-length", "QubitArray(D1(w)) iff a length w is written, Qubit otherwise", okq, s2s.at,
         f"{len(rows_q)} rows" if okq else f"the recorded type of a qubit declaration also depends on other tests: {sorted(rows_q)[:3]} (`qubit[1] q;` must be a register of length one)")
    import C07
    C07.return_type_scope(prog, R, "C09.4-return-type-scope")
    R.premises(prog, "C09.2-designator-lookup-premise", ["C19:C19.3-"], "an identifier used as a width or length is resolved by SymbolTable::lookup: the innermost visible binding (a shadowing const of another value must win)")
    R.premises(prog, "C09.0-binding-premise", ["C19:C19.4-"], "a declaration is recorded with its written type only if binding it succeeds: SymbolTable::new_binding refuses a name exactly when the current scope already has it (a parameter, loop variable or local that merely shadows a visible outer name -- a gate of the standard library, say -- is bound)")
    R.premises(prog, "C09.5-scope-premise", ["C07:C07.1-", "C07:C07.2-", "C07:C07.3-"], "every declaration records its written type in the scope it is written in: each body (then / else / loop / case / default / gate / def) is translated in a scope of its own")
    R.premises(prog, "C09.2-literal-value-premise", ["C10:C10.2-", "C10:C10.3-", "C10:C10.4-digit-string"],
               "a literal width / register length reaches the symbol table through IntNumber::value(): its radix, digit string and sibling agreement are C10's obligations")
    # ---- C09.2 no unchecked narrowing cast
    order = {"u8": 8, "u16": 16, "u32": 32, "u64": 64, "usize": 64, "u128": 128, "i8": 8, "i16": 16, "i32": 32, "i64": 64, "isize": 64, "i128": 128}
    narrow, widen = [], 0
    for b in prog.by_crate["oq3_semantics"]:
        if not b.npath.startswith(S2S):
            continue
        for bi, si, s_ in b.stmts_with_pos():
            if s_["k"] == "assign" and s_["rv"]["k"] == "cast" and s_["rv"]["kind"] == "IntToInt":
                f, t_ = s_["rv"]["from"], s_["rv"]["to"]
                if f in order and t_ in order:
                    if order[t_] < order[f]:
                        narrow.append((inventory.ishort(b.npath), f, t_, s_["at"]))
                    else:
                        widen += 1
    for n in narrow:
        R.ob("C09.2-no-silent-narrowing", f"{n[0]}:{n[1]}->{n[2]}", False, n[3], f"`as {n[2]}` on a {n[1]} value in the translator: a width/length that does not fit is silently replaced by another number; use a checked conversion")
    R.ob("C09.2-no-silent-narrowing", "translator", not narrow, "", f"{len(narrow)} narrowing `as` casts in syntax_to_semantics (positive control: {widen} widening casts found by the same matcher)")
    R.floor("positive control: widening casts", widen, 2)
    # ---- C09.2 const-expression -> u32 conversion used for designators: Ok only for a non-negative integer literal
    # (directly or under a cast), through the checked std conversion
    tf = [k for k in prog.bodies if k.startswith("oq3_semantics::asg::<impl std::convert::TryFrom<&oq3_semantics::asg::TExpr> for u32>::try_from") and "{closure" not in k]
    if tf:
        b = prog.body(tf[0])
        il = prog.adts.get("oq3_semantics::asg::IntLiteral")
        fidx = {f["name"]: i for i, f in enumerate(il["variants"][0]["fields"])} if il else {}
        badc, nok = [], 0
        for p in SymExec(prog, b).paths():
            if "__diverged__" in p.env:
                badc.append("panic path")
                continue
            r = deep_strip(p.env.get(0))
            if show(r).startswith("Result::Err"):
                continue
            nok += 1
            # map_err(try_from(L.value), ..) with sign(L) == true on the path
            inner = r[2][0] if r[0] in ("call", "pure") and r[1].endswith("map_err") else r
            inner = deep_strip(inner)
            okp = isinstance(inner, tuple) and inner[0] in ("call", "pure") and "TryFrom" in inner[1] and inner[1].endswith("try_from")
            if okp:
                v = deep_strip(inner[2][0])
                okp = isinstance(v, tuple) and v[0] == "field" and v[2] == fidx.get("value")
                if okp:
                    lit = v[1]
                    okp = any(isinstance(t_, tuple) and t_[0] == "field" and t_[1] == lit and t_[2] == fidx.get("sign") and truth(c) for t_, c in conds_of(p))
            if not okp:
                badc.append(show(r)[:80] + " under " + str([(show(t_)[-30:], c) for t_, c in conds_of(p)][-2:]))
        R.ob("C09.2-designator-conversion", "u32::try_from(&TExpr) is Ok only for an integer literal with sign == true, via the checked conversion of its value", not badc and nok >= 1 and "sign" in fidx, b.at, f"{nok} Ok paths; {badc[:2]}")
    else:
        R.ob("ANCHOR", "TryFrom<&TExpr> for u32", False, "", "conversion used by designator_to_asg not found")
    # ---- C09.2 a written designator that yields no width is diagnosed: every path of designator_to_asg that returns
    # None although a designator expression is present inserts a diagnostic, or is the unresolved-identifier path
    # (reported by the lookup: C07.5)
    dz = R.anchor(prog, S2S + "designator_to_asg")
    if dz:
        nn, silent = 0, []
        for p in SymExec(prog, dz, max_paths=2000).paths():
            if "__diverged__" in p.env:
                continue
            rv_ = show(deep_strip(p.env.get(0)))
            if rv_ != "Option::None" and "FromResidual" not in rv_.split("(")[0]:       # `?` on an Option returns None through FromResidual
                continue
            cs = [(show(t), c) for t, c in conds_of(p)]
            written = any(s_ == "discr(get_ast_designator_expression(designator))" and c == ("eq", 1) for s_, c in cs)
            if not written:
                continue
            nn += 1
            unresolved = any(s_.startswith("discr(lookup_identifier(") and s_.endswith(".0)") and c != ("eq", 0) for s_, c in cs)
            if not errors_on(p) and not unresolved:
                silent.append([x for x in cs if "lookup_identifier" in x[0] or "is_const" in x[0]][-2:])
        # the recorded value of a symbol is used as a width only for a symbol whose *type* is const (the side table also
        # holds values of non-const variables initialised with a constant expression)
        nget, badg = 0, []
        for p in SymExec(prog, dz, max_paths=2000).paths():
            if not any(nm.endswith("Context::get_const_value") for nm, a_, bb_ in p.calls):
                continue
            nget += 1
            cs = [(show(t), c) for t, c in conds_of(p)]
            if not any(s_.startswith("is_const(") and truth(c) for s_, c in cs):
                badg.append(cs[-2:])
        R.ob("C09.2-designator-const-only", "get_const_value is consulted only under is_const() of the symbol's type", nget >= 1 and not badg, dz.at, f"{nget} paths call get_const_value; without the const test: {badg[:2]}")
        R.ob("C09.2-designator-diagnosed", "a written designator without a usable width is always diagnosed", nn >= 3 and not silent, dz.at,
             f"{nn} paths return None for a written designator; silent ones: {silent[:2]}" if silent else f"{nn} paths return None for a written designator, each with a diagnostic (or the unresolved-identifier diagnostic of the lookup)")
    # ---- C09.3 const side table
    cd = R.anchor(prog, S2S + "classical_declaration_statement_to_asg_stmt")
    if cd:
        ps, _ = paths(prog, cd.npath)
        bad = []
        n = 0
        for p in ps:
            if "__diverged__" in p.env:
                continue
            n += 1
            r = deep_strip(p.env.get(0))
            if not (r[0] == "call" and r[1].endswith("declare_classical_helper")):
                bad.append(show(r)[:80])
        R.ob("C09.3-const-table-filled", "every declaration path goes through declare_classical_helper", not bad and n >= 10, cd.at, f"{n} paths; bypassing: {bad[:2]}")
    dh = R.anchor(prog, S2S + "declare_classical_helper")
    if dh:
        ps, _ = paths(prog, dh.npath)
        bad = []
        for p in ps:
            if "__diverged__" in p.env:
                bad.append("panic path")
                continue
            ins = calls_named(p, "Context::insert_const_value")
            c = find_cond(p, lambda t: isinstance(t, tuple) and t[0] in ("call", "pure") and t[1].endswith("Type::is_const"))
            some = [cc for t, cc in conds_of(p) if isinstance(t, tuple) and t[0] == "discr" and show(t) in ("discr(initializer)",)]
            okid = [cc for t, cc in conds_of(p) if isinstance(t, tuple) and t[0] == "discr" and "symbol_id" in show(t)]
            want = bool(some) and some[0] == ("eq", 1) and bool(okid) and okid[0] == ("eq", 0) and bool(c) and c[0]
            if bool(ins) != want:
                bad.append((some, okid, c, len(ins)))
        R.ob("C09.3-const-table-filled", "helper records the value iff initializer present, symbol bound, initializer type const", not bad, dh.at, f"{bad[:2]}")
    # ---- C09.4 stdgates table and gates() filter
    spec = json.load(open(os.path.join(VERIF, "spec", "stdgates.json")))["gates"]
    sg = R.anchor(prog, "oq3_semantics::symbols::SymbolTable::standard_library_gates")
    if sg:
        # straight-line code: the k-th array of names pairs with the k-th [n_params, n_qubits] array
        tab = {}
        groups, arities = [], []
        for bl in sg.blocks:
            if bl.cleanup:
                continue
            for s_ in bl.stmts:
                if s_["k"] != "assign":
                    continue
                rv = s_["rv"]
                if rv["k"] == "agg" and rv.get("array") == "usize" and len(rv["fields"]) == 2 and all(f.get("k") == "const" for f in rv["fields"]):
                    arities.append([const_of(f) for f in rv["fields"]])
                elif rv["k"] == "agg" and rv.get("array") == "&str":
                    names = []
                    for f in rv["fields"]:
                        o = origins(prog, sg, f)
                        names += [x[2] for x in o if x[0] == "const" and x[1] == "&str"]
                    groups.append(names)
        R.ob("C09.4-stdgates", "table-shape", len(groups) == len(arities) and len(groups) >= 8, sg.at, f"{len(groups)} name groups, {len(arities)} arity arrays")
        for names, ar in zip(groups, arities):
            for nme in names:
                tab[nme] = ar
        R.floor("standard library gates found in the table", len(tab), 30)
        for g, ar in sorted(spec.items()):
            R.ob("C09.4-stdgates", g, tab.get(g) == ar, sg.at, f"{g}: (params, qubits) = {tab.get(g)} (stdgates.inc: {ar})")
        for g in sorted(set(tab) - set(spec)):
            R.ob("C09.4-stdgates", "extra:" + g, False, sg.at, f"{g} {tab[g]} is not a standard-library gate")
        # the closure binds Type::Gate(n_cl, n_qu) in that order
        cl = prog.body("oq3_semantics::symbols::SymbolTable::standard_library_gates::{closure#0}::{closure#0}")
        if cl:
            ok, nbnd = True, 0
            for p in SymExec(prog, cl).paths():
                for c in p.calls:
                    if c[0].endswith("SymbolTable::new_binding"):
                        nbnd += 1
                        ty_ = deep_strip(c[1][2])
                        # Type::Gate(<capture 1>, <capture 2>) of the closure environment
                        ok = ok and ty_[0] == "adt" and ty_[1].endswith("Type::Gate") and [deep_strip(x) for x in ty_[2]] == [("field", ("arg", 1, None), 1), ("field", ("arg", 1, None), 2)]
            # the two captures are the arity array's elements 0 (classical parameters) and 1 (qubits), in that order
            oc = prog.body("oq3_semantics::symbols::SymbolTable::standard_library_gates::{closure#0}")
            cap = []
            if oc:
                defs_ = {}
                for bi_, si_, st_ in oc.stmts_with_pos():
                    if st_["k"] == "assign" and not st_["lhs"]["p"]:
                        defs_.setdefault(st_["lhs"]["l"], []).append(st_["rv"])
                for bi_, si_, st_ in oc.stmts_with_pos():
                    if st_["k"] == "assign" and st_["rv"]["k"] == "agg" and (st_["rv"].get("closure") or "").endswith("{closure#0}::{closure#0}"):
                        for f_ in st_["rv"]["fields"][1:3]:
                            rv_ = (defs_.get(f_["pl"]["l"]) or [{}])[0]
                            src_ = rv_.get("pl", {}).get("l") if rv_.get("k") == "ref" else None
                            rv2 = (defs_.get(src_) or [{}])[0] if src_ is not None else {}
                            idx_ = [p_[1] for p_ in rv2.get("op", {}).get("pl", {}).get("p", []) if p_[0] == "cindex"] if rv2.get("k") == "use" else []
                            cap.append(idx_[0] if idx_ else None)
            R.ob("C09.4-stdgates", "bound as Type::Gate(n_cl, n_qu)", ok and nbnd >= 1 and cap == [0, 1], cl.at, f"{nbnd} binding call(s); Type::Gate(capture 1, capture 2) with captures = arity array elements {cap}")
        # every gate of the table is bound whenever the function is called: one unconditional path through the
        # flat_map/filter chain (no early return that skips the library), and the filter closure binds on every path
        psg = [p for p in SymExec(prog, sg).paths() if "__diverged__" not in p.env]
        straight = len(psg) == 1 and not any(c[0] == "switch" for c in psg[0].conds) and "flat_map" in show(deep_strip(psg[0].env.get(0))) and "collect" in show(deep_strip(psg[0].env.get(0)))
        allbind = cl is not None and all(any(c[0].endswith("SymbolTable::new_binding") for c in p.calls) for p in SymExec(prog, cl).paths() if "__diverged__" not in p.env)
        # ... and the binding closure is applied to every name of a group: the adaptor it is handed to visits all items
        # and the chain is exhausted (a short-circuiting consumer such as find/any/all/position/take_while stops at the
        # first name whose test is true, i.e. at the first name that is already bound, and skips the rest of the group)
        shortc = None
        if cl is not None and oc:
            SHORT = ("find", "find_map", "any", "all", "position", "rposition", "take_while", "skip_while", "map_while", "try_for_each", "try_fold", "next", "nth", "take", "min_by", "max_by", "is_sorted_by")
            handed_to = []
            for _, t_ in oc.calls():
                if (cl.npath in json.dumps(t_.get("rargs", ""))) or any(cl.npath.split("::")[-2] + "::" + cl.npath.split("::")[-1] in str(a_) for a_ in t_.get("args", [])):
                    handed_to.append((oc.callee_of(t_) or "?").split("::")[-1])
            allc = [(oc.callee_of(t_) or "?").split("::")[-1] for _, t_ in oc.calls()]
            shortc = [c_ for c_ in allc if c_ in SHORT]
            allbind = allbind and not shortc
        if cl is None:
            # the same table walked by two nested `for` loops instead of flat_map/filter: every name taken from the inner
            # iterator is bound before the next one is taken, with Type::Gate(arity[0], arity[1])
            import re as _re
            pl_ = [p for p in SymExec(prog, sg, max_visits=2, max_paths=4000).paths() if "__diverged__" not in p.env or "__cut__" in p.env]
            okseq, nb_, tys_ = bool(pl_), 0, set()
            for p in pl_:
                seq = []
                for c in p.calls:
                    if c[0].endswith("Iterator>::next"):
                        ra = json.dumps(sg.blocks[c[2]].term.get("rargs"))
                        seq.append("inner" if ra.startswith('["&str"') else "outer")
                    elif c[0].endswith("SymbolTable::new_binding"):
                        seq.append("bind")
                        nb_ += 1
                        tys_.add(_re.sub(r"\s+", " ", show(deep_strip(c[1][2]))))
                for i_, x_ in enumerate(seq):
                    if x_ == "bind" and (i_ == 0 or seq[i_ - 1] != "inner"):
                        okseq = False
                    if x_ == "inner" and i_ + 1 < len(seq) and seq[i_ + 1] not in ("bind", "outer"):
                        okseq = False          # a name was taken and the next name was taken without binding it
            # the two components of every bound type are the arity array's elements 0 (parameters) and 1 (qubits)
            okty = bool(tys_)
            for t_ in tys_:
                m_ = _re.fullmatch(r"Type::Gate\((.*)\)", t_)
                a_ = t_[len("Type::Gate("):-1]
                idx_ = [int(x) for x in _re.findall(r"'cindex', (\d+)\)", a_)]
                okty = okty and bool(m_) and idx_ == [0, 1] and a_.count("Iterator>::next") >= 2
            R.ob("C09.4-stdgates", "bound as Type::Gate(n_cl, n_qu)", okty and nb_ >= 1, sg.at, f"loop form: {nb_} binding call(s) on {len(pl_)} paths; type {sorted(tys_)[:1]}")
            straight, allbind = okseq, okseq
        R.ob("C09.4-stdgates", "every gate of the table is bound on every call (no conditional skip)", straight and allbind, sg.at,
             f"{len(psg)} returning path(s) of standard_library_gates, conditions on them: {sum(1 for p in psg for c in p.conds if c[0] == 'switch')}; filter closure binds on every path and is applied to every name: {allbind}" + (f"; short-circuiting iterator call(s) {shortc} in the per-group closure: binding stops at the first name whose test succeeds" if shortc else ""))
    gc = prog.body("oq3_semantics::symbols::SymbolTable::gates::{closure#0}")
    if gc:
        ps = [p for p in SymExec(prog, gc).paths() if "__diverged__" not in p.env]
        D = {n: d for n, d in prog.enum_variants(T + "Type")}
        ok = True
        somes = 0
        for p in ps:
            r = deep_strip(p.env.get(0))
            gate = [c for t, c in conds_of(p) if isinstance(t, tuple) and t[0] == "discr" and "symbol_type" in show(t)]
            isU = [truth(c) for t, c in conds_of(p) if isinstance(t, tuple) and t[0] in ("pure", "call") and "eq" in t[1] and ("c", "&str", "U") in t[2]]
            some = r[0] == "adt" and r[1].endswith("Option::Some")
            want = bool(gate) and gate[0] == ("eq", D["Gate"]) and bool(isU) and not isU[0]
            ok = ok and (some == want)
            somes += some
            if some:
                tup = r[2][0]
                ok = ok and tup[0] == "tuple" and len(tup[1]) == 4 and tup[1][2] != tup[1][3]
        R.ob("C09.4-gates-listing", "gates() yields exactly Type::Gate symbols other than U, with (params, qubits) in order", ok and somes == 1, gc.at, f"{len(ps)} paths")
    else:
        R.ob("ANCHOR", "SymbolTable::gates closure", False)
