"""C14 — tokens partition the input on character boundaries (structural clauses C14.1–C14.6)."""
from collections import defaultdict
from kernel import *
from sym import SymExec, show, strip_transparent, deep_strip
import inventory
from gram import reviewed_table

CUR = "oq3_lexer::cursor::Cursor"
C = "oq3_lexer::cursor::Cursor::"
DENY = ("std::env::", "std::time::", "std::thread::", "rand::", "std::fs::", "std::io::", "std::process::", "std::net::", "getrandom", "std::sync::", "core::sync::atomic", "std::cell::", "core::cell::", "thread_local", "once_cell", "lazy_static")


def run(prog, R):
    R.explanation = ("Who-may-write rules on the cursor state, ordering/provenance rules on advance_token (every token is built from "
                     "pos_within_token() right before reset_pos_within_token(), after at least one successful bump), provenance of suffix_start, "
                     "offset bookkeeping of the LexedStr converter, an effect deny-list for determinism, and the lexer part of the panic inventory.")
    R.not_decided = ["u32 truncation of lengths for inputs >= 4 GiB (outside the stated size bound)"]
    R.assumptions = ["std::str::Chars::next advances by exactly one char and as_str() returns the remaining text", "input < 2^31 bytes"]
    at = R.anchor(prog, "oq3_lexer::Cursor::advance_token")
    bump = R.anchor(prog, C + "bump")
    pw = R.anchor(prog, C + "pos_within_token")
    rs = R.anchor(prog, C + "reset_pos_within_token")
    new = R.anchor(prog, C + "new")
    tk = R.anchor(prog, "oq3_lexer::tokenize::{closure#0}")
    if not all([at, bump, pw, rs, new, tk]) or CUR not in prog.adts:
        return
    fields = [f["name"] for f in prog.adts[CUR]["variants"][0]["fields"]]
    for f in prog.adts[CUR]["variants"][0]["fields"]:
        R.ob("C14.1-private-state", "Cursor." + f["name"], f["vis"] not in ("pub", "crate"), "", f"visibility {f['vis']}")
    R.premises(prog, "C14.0-lexer-termination-premise", ["c01_lexer:C01.1-"], "a finite token stream: every lexer loop consumes on every cycle and leaves at end of input (the lexer half of C01, evaluated without the grammar interpreter)")
    import C02
    C02.text_identity(prog, R, "C14.0-text-identity")      # the tokens partition *the input*: nothing is cut off before the cursor is created
    # ---- C14.1 who may mutate chars / len_remaining
    n = 0
    for s in field_sites(prog, CUR, "chars"):
        if s["mode"] in ("write", "refmut", "rawptr", "move"):
            b = s["body"]
            n += 1
            sinks = forward_sinks(prog, b, s["stmt"]["lhs"]["l"]) if s["mode"] == "refmut" and s["idx"] != "T" else [("other", s["mode"])]
            ok = b.npath == bump.npath and all(x[0] == "call" and x[1] == "<std::str::Chars as std::iter::Iterator>::next" for x in sinks) and sinks
            if b.npath == new.npath and s["mode"] == "write":
                ok = True
            R.ob("C14.1-chars-only-next", f"{inventory.ishort(b.npath)}:{s['mode']}", ok, s["at"], f"mutable access to Cursor.chars -> {sinks}; allowed: Chars::next in Cursor::bump")
    R.floor("Cursor.chars mutable sites", n, 1)
    n = 0
    for s in field_sites(prog, CUR, "len_remaining"):
        if s["mode"] in ("write", "refmut", "rawptr"):
            n += 1
            b = s["body"]
            R.ob("C14.1-len_remaining-writers", inventory.ishort(b.npath), b.npath in (rs.npath, new.npath), s["at"], "len_remaining may be written only in new() and reset_pos_within_token()")
    R.floor("len_remaining writers", n, 1)
    # Cursor aggregates only in new
    for k, b in prog.bodies.items():
        for bi, si, s_ in b.stmts_with_pos():
            if s_["k"] == "assign" and s_["rv"]["k"] == "agg" and norm(s_["rv"].get("adt", "")) == CUR:
                R.ob("C14.1-single-constructor", inventory.ishort(k), k == new.npath, s_["at"], "Cursor constructed here")
    # reset / pos_within_token / new bodies
    ps = [p for p in SymExec(prog, rs).paths() if "__diverged__" not in p.env]
    ok = len(ps) == 1 and len(ps[0].stores) == 1
    if ok:
        v = deep_strip(ps[0].stores[0][1])
        ok = v[0] == "call" and v[1].endswith("str::len") and v[2][0] == ("field", ("arg", 1, "self"), fields.index("chars"))
    R.ob("C14.1-reset", "len_remaining = chars.as_str().len()", ok, rs.at, show(ps[0].stores[0][1]) if ps and ps[0].stores else "")
    ps = [p for p in SymExec(prog, pw).paths() if "__diverged__" not in p.env]
    ok = len(ps) == 1
    if ok:
        v = deep_strip(ps[0].env.get(0))
        ok = v[0] == "cast" and v[2][0] == "field" and v[2][1][0] == "bin" and v[2][1][1] == "SubWithOverflow" and v[2][1][2] == ("field", ("arg", 1, "self"), fields.index("len_remaining")) \
            and v[2][1][3][0] == "call" and v[2][1][3][1].endswith("str::len")
    R.ob("C14.1-pos_within_token", "len_remaining - chars.as_str().len()", ok, pw.at, show(ps[0].env.get(0)) if ps else "")
    ps = [p for p in SymExec(prog, new).paths() if "__diverged__" not in p.env]
    ok = len(ps) == 1
    if ok:
        v = deep_strip(ps[0].env.get(0))
        ok = v[0] == "adt" and v[2][fields.index("len_remaining")][0] == "call" and v[2][fields.index("len_remaining")][1].endswith("str::len") and v[2][fields.index("len_remaining")][2][0] == ("arg", 1, "input") \
            and v[2][fields.index("chars")][0] == "call" and v[2][fields.index("chars")][1].endswith("str::chars") and v[2][fields.index("chars")][2][0] == ("arg", 1, "input")
    R.ob("C14.1-new", "len_remaining=input.len(), chars=input.chars()", ok, new.at, show(ps[0].env.get(0)) if ps else "")

    # ---- C14.2 / C14.3 advance_token paths
    se = SymExec(prog, at, max_paths=50000)
    paths = se.paths()
    R.ob("C14.2-evaluated", "advance_token paths", not se.truncated and len(paths) > 50, at.at, f"{len(paths)} paths enumerated")
    bad2, bad3 = [], []
    n_tok, n_lit = 0, 0
    for p in paths:
        if "__diverged__" in p.env or "__cut__" in p.env:
            continue
        r = p.env.get(0)
        calls = [c[0] for c in p.calls]
        if not (r[0] == "call" and r[1] == "oq3_lexer::Token::new"):
            bad2.append(("return is not Token::new", show(r)[:80]))
            continue
        kind_t, len_t = r[2]
        first_bump_none = any(c[0] == "switch" and c[1][0] == "discr" and c[1][1][0] == "call" and c[1][1][1] == bump.npath and c[2] == ("eq", 0) and c[1][1][3] == ((0, 0),) for c in p.conds)
        if first_bump_none:
            ok = kind_t == ("adt", "oq3_lexer::TokenKind::Eof", ()) and len_t == ("c", "u32", 0) and calls == [bump.npath, "oq3_lexer::Token::new"]
            if not ok:
                bad2.append(("EOF path", show(r)))
            continue
        n_tok += 1
        # non-EOF: first call is bump (Some), last three calls are pos_within_token, Token::new, reset
        ok = calls[:1] == [bump.npath] and calls[-3:] == [pw.npath, "oq3_lexer::Token::new", rs.npath] and len_t[0] == "call" and len_t[1] == pw.npath \
            and kind_t != ("adt", "oq3_lexer::TokenKind::Eof", ()) and calls.count(rs.npath) == 1
        if ok:
            # the len argument is the result of the *last* pos_within_token call
            last_pw = [c for c in p.calls if c[0] == pw.npath][-1]
            ok = len_t[3] == ((last_pw[2], 0),) or len_t[3][-1][0] == last_pw[2]
        if not ok:
            bad2.append((calls[-4:], show(r)[:100]))
        # C14.3 suffix_start
        kt = kind_t
        if isinstance(kt, tuple) and kt[0] == "adt" and kt[1].endswith("TokenKind::Literal"):
            n_lit += 1
            ss = kt[2][1]
            ok3 = ss[0] == "call" and ss[1] == pw.npath
            if ok3:
                pos_ss = [i for i, c in enumerate(p.calls) if c[0] == pw.npath and (ss[3][-1][0] == c[2])]
                pos_last = max(i for i, c in enumerate(p.calls) if c[0] == pw.npath)
                ok3 = bool(pos_ss) and pos_ss[0] <= pos_last and not any(c[0] == rs.npath for c in p.calls[pos_ss[0]:pos_last])
            if not ok3:
                bad3.append(show(ss))
    R.ob("C14.2-token-construction", "every non-EOF path: bump .. pos_within_token, Token::new(kind, that), reset", not bad2 and n_tok > 50, at.at, f"{n_tok} non-EOF paths checked; offending: {bad2[:3]}")
    R.ob("C14.3-suffix_start", "suffix_start is an earlier pos_within_token() of the same token", not bad3 and n_lit >= 4, at.at, f"{n_lit} literal paths; offending {bad3[:3]}")
    tn = prog.body("oq3_lexer::Token::new")
    if tn:
        ps = [p for p in SymExec(prog, tn).paths()]
        ok = len(ps) == 1 and ps[0].env.get(0) == ("adt", "oq3_lexer::Token::Token", (("arg", 1, "kind"), ("arg", 2, "len")))
        R.ob("C14.2-token-construction", "Token::new stores (kind, len)", ok, tn.at, show(ps[0].env.get(0)) if ps else "")
    else:
        R.ob("ANCHOR", "Token::new", False)
    # bump: Some only when Chars::next is Some
    for p in SymExec(prog, bump, inline=None).paths():
        if "__diverged__" in p.env:
            continue
        r = deep_strip(p.env.get(0))
        some = r[0] == "adt" and r[1].endswith("Option::Some")
        nxt = [c for c in p.calls if c[0] == "<std::str::Chars as std::iter::Iterator>::next"]
        R.ob("C14.2-bump", "Some-iff-next-Some:" + ("Some" if some else "None"), len(nxt) == 1, bump.at, f"{show(r)[:80]}; exactly one Chars::next per bump")
    # tokenize closure: None iff Eof
    for p in SymExec(prog, tk).paths():
        if "__diverged__" in p.env:
            continue
        r = p.env.get(0)
        sw = [c for c in p.conds if c[0] == "switch"]
        some = r[0] == "adt" and r[1].endswith("Option::Some")
        ok = len(sw) == 1 and sw[0][1][0] == "pure" and sw[0][1][1].endswith("eq") and any(x == ("adt", "oq3_lexer::TokenKind::Eof", ()) for x in sw[0][1][2])
        ok = ok and ((sw[0][2] == ("eq", 0)) == some)
        if some:
            ok = ok and r[2][0][0] == "call" and r[2][0][1] == at.npath
        R.ob("C14.2-tokenize", "yields-until-Eof:" + ("Some" if some else "None"), ok, tk.at, f"{show(r)[:60]} under {[(show(c[1])[:80], c[2]) for c in sw]}")

    # ---- C14.4 converter bookkeeping
    cp = R.anchor(prog, "oq3_parser::lexed_str::Converter::push")
    if cp:
        cf = [f["name"] for f in prog.adts["oq3_parser::lexed_str::Converter"]["variants"][0]["fields"]]
        oi = cf.index("offset")
        good = 0
        for p in SymExec(prog, cp).paths():
            if "__diverged__" in p.env:
                continue
            lp = [c for c in p.calls if c[0] == "oq3_parser::lexed_str::LexedStr::push"]
            st = [s for s in p.stores if s[0][1] and s[0][1][-1] == ("field", oi)]
            ok = len(lp) == 1 and lp[0][1][1] == ("arg", 2, "kind") and lp[0][1][2] == ("field", ("arg", 1, "self"), oi) and len(st) == 1 \
                and st[0][1] == ("field", ("bin", "AddWithOverflow", ("field", ("arg", 1, "self"), oi), ("arg", 3, "len")), 0) and lp[0][2] < st[0][2] if lp and st else False
            good += ok
            R.ob("C14.4-converter-push", f"path{len(p.trace)}", ok, cp.at, f"push(kind, offset) then offset += len: {[show(a) for a in lp[0][1]] if lp else None} / {[show(s[1]) for s in st]}")
    lpush = R.anchor(prog, "oq3_parser::lexed_str::LexedStr::push")
    if lpush:
        ps = [p for p in SymExec(prog, lpush).paths() if "__diverged__" not in p.env]
        ok = len(ps) == 1
        if ok:
            pushes = [c for c in ps[0].calls if c[0].endswith("Vec::push")]
            lf = [f["name"] for f in prog.adts["oq3_parser::lexed_str::LexedStr"]["variants"][0]["fields"]]
            ok = len(pushes) == 2 and pushes[0][1][0] == ("field", ("arg", 1, "self"), lf.index("kind")) and pushes[0][1][1] == ("arg", 2, "kind") \
                and pushes[1][1][0] == ("field", ("arg", 1, "self"), lf.index("start")) and deep_strip(pushes[1][1][1]) == ("cast", "u32", ("arg", 3, "offset"))
        R.ob("C14.4-lexedstr-push", "kind and start pushed together", ok, lpush.at, "")
    # the conversion loop of LexedStr::new runs until the token iterator is exhausted: its only exit is the `None`
    # branch of next() (an early exit would end the token table before the end of the input)
    ln = R.anchor(prog, "oq3_parser::lexed_str::LexedStr::new")
    if ln:
        succ = ln.succ()
        okx, det = False, "no loop driven by Iterator::next found"
        for comp in ln.sccs():
            comp = set(comp)
            if all(ln.blocks[x].cleanup for x in comp):
                continue
            nxt = [x for x in comp if ln.blocks[x].term["k"] == "call" and (ln.callee_of(ln.blocks[x].term) or "").endswith("::next")]
            if not nxt:
                continue
            exits = sorted({(x, y) for x in comp for y in succ[x] if y not in comp and not ln.blocks[y].cleanup and ln.blocks[x].term["k"] not in ("call", "assert", "drop") or (y not in comp and not ln.blocks[y].cleanup and ln.blocks[x].term["k"] == "switch")})
            # blocks whose switch tests the discriminant of the value returned by next()
            nxt_dest = {ln.blocks[x].term["dest"]["l"] for x in nxt if ln.blocks[x].term.get("dest")}
            def tests_next(bx):
                t_ = ln.blocks[bx].term
                if t_["k"] != "switch":
                    return False
                for st_ in ln.blocks[bx].stmts:
                    if st_["k"] == "assign" and st_["rv"]["k"] == "discr" and st_["rv"]["pl"]["l"] in nxt_dest:
                        return True
                return False
            bad_exits = [(x, y) for x, y in exits if not tests_next(x)]
            okx = bool(exits) and not bad_exits
            det = f"{len(exits)} exit edge(s) of the token loop, all on the discriminant of next()" if okx else f"the token loop can be left at {[ln.blocks[x].term['at'] for x, y in bad_exits][:3]} before the iterator is exhausted"
            break
        R.ob("C14.4-conversion-loop-exhaustive", "LexedStr::new converts every token of the stream", okx, ln.at, det)
    fe = R.anchor(prog, "oq3_parser::lexed_str::Converter::finalize_with_eof")
    if fe:
        ps = [p for p in SymExec(prog, fe).paths() if "__diverged__" not in p.env]
        ok = len(ps) == 1
        if ok:
            lp = [c for c in ps[0].calls if c[0] == "oq3_parser::lexed_str::LexedStr::push"]
            ok = len(lp) == 1 and lp[0][1][1] == ("adt", "oq3_parser::syntax_kind::syntax_kind_enum::SyntaxKind::EOF", ()) and lp[0][1][2] == ("field", ("arg", 1, "self"), 1)
        R.ob("C14.4-final-offset", "finalize pushes (EOF, offset)", ok, fe.at, "")
    # every table handed out ends with that sentinel: each returning path of LexedStr::new returns the value of
    # finalize_with_eof (len() = kind.len() - 1, kind(i), text_range(i) all rely on the EOF entry being there)
    if ln:
        rets = [deep_strip(p_.env.get(0)) for p_ in SymExec(prog, ln, max_visits=2, max_paths=800).paths() if "__diverged__" not in p_.env and "__cut__" not in p_.env]
        badr = [show(r_)[:80] for r_ in rets if not (isinstance(r_, tuple) and r_[0] == "call" and r_[1].endswith("Converter::finalize_with_eof"))]
        R.ob("C14.4-final-offset", "every table returned by LexedStr::new went through finalize_with_eof", bool(rets) and not badr, ln.at,
             f"{len(rets)} returning path(s)" if rets and not badr else f"a path returns {badr[:2]}: a token table without the final (EOF, input length) entry: len() underflows and the last token has no end offset")
    # who may write Converter.offset: initialised by Converter::new, advanced by Converter::push by the token's length
    # and nowhere else (skipping bytes without a token leaves them outside every token)
    ws = set()
    for s_ in field_sites(prog, "oq3_parser::lexed_str::Converter", "offset"):
        if s_["mode"] in ("write", "refmut", "rawptr", "move"):
            ws.add(s_["body"].npath)
    R.ob("C14.4-writers", "Converter.offset", ws <= {"oq3_parser::lexed_str::Converter::push", "oq3_parser::lexed_str::Converter::new"} and "oq3_parser::lexed_str::Converter::push" in ws, "", f"writers {sorted(ws)}")
    # who may write LexedStr.start / kind
    for fld in ("start", "kind"):
        ws = set()
        for s in field_sites(prog, "oq3_parser::lexed_str::LexedStr", fld):
            if s["mode"] in ("write", "refmut", "rawptr", "move") and "Converter::new" not in s["body"].npath:
                ws.add(s["body"].npath)
        R.ob("C14.4-writers", "LexedStr." + fld, ws == {"oq3_parser::lexed_str::LexedStr::push"}, "", f"writers {sorted(ws)}")
    # extend_token passes the returned length unchanged; inner_extend_token returns token_text.len()
    iet = R.anchor(prog, "oq3_parser::lexed_str::inner_extend_token")
    if iet:
        bad = []
        np_ = 0
        for p in SymExec(prog, iet, max_paths=5000).paths():
            if "__diverged__" in p.env:
                continue
            np_ += 1
            r = deep_strip(p.env.get(0))
            ln = r[1][2] if r[0] == "tuple" else (r if r[0] == "call" else None)
            if r[0] == "tuple":
                ok = ln[0] == "call" and ln[1].endswith("str::len") and ln[2][0] == ("arg", 2, "token_text")
            else:
                ok = r[0] == "call" and r[1] == "oq3_parser::lexed_str::extend_literal_func" and r[2][0][0] == "call" and r[2][0][1].endswith("str::len") and r[2][0][2][0] == ("arg", 2, "token_text")
            if not ok:
                bad.append(show(r)[:100])
        R.ob("C14.4-length-provenance", "inner_extend_token returns token_text.len()", not bad and np_ > 40, iet.at, f"{np_} paths; offending {bad[:2]}")
    elf = R.anchor(prog, "oq3_parser::lexed_str::extend_literal_func")
    if elf:
        bad = []
        for p in SymExec(prog, elf).paths():
            if "__diverged__" in p.env:
                continue
            r = deep_strip(p.env.get(0))
            if not (r[0] == "tuple" and r[1][2] == ("arg", 1, "len")):
                bad.append(show(r)[:80])
        R.ob("C14.4-length-provenance", "extend_literal_func returns its len", not bad, elf.at, f"{bad[:2]}")
    et = R.anchor(prog, "oq3_parser::lexed_str::Converter::extend_token")
    if et:
        bad = []
        for p in SymExec(prog, et).paths():
            if "__diverged__" in p.env:
                continue
            cp_ = [c for c in p.calls if c[0] == "oq3_parser::lexed_str::Converter::push"]
            ok = len(cp_) == 1 and cp_[0][1][2][0] == "field" and cp_[0][1][2][2] == 2 and cp_[0][1][2][1][0] == "call" and cp_[0][1][2][1][1] == "oq3_parser::lexed_str::inner_extend_token" \
                and cp_[0][1][1] == ("field", cp_[0][1][2][1], 1)
            if not ok:
                bad.append([show(a)[:60] for a in cp_[0][1]] if cp_ else "no push")
        R.ob("C14.4-length-provenance", "extend_token forwards (kind, len) of inner_extend_token", not bad, et.at, f"{bad[:2]}")

    # ---- C14.5 determinism: effect deny-list over the cone of tokenize and LexedStr::new
    cone = prog.cone(["oq3_lexer::tokenize", "oq3_parser::lexed_str::LexedStr::new"])
    ext = prog.ext_calls()
    bad = []
    for f in cone:
        for c in ext.get(f, ()):
            if any(d in c for d in DENY):
                bad.append((inventory.ishort(f), c))
        b = prog.body(f)
        for l in b.locals:
            t = l["ty"] if isinstance(l["ty"], str) else ""
            if any(x in t for x in ("std::cell::", "std::sync::", "atomic::Atomic")):
                bad.append((inventory.ishort(f), "local of type " + t))
    R.ob("C14.5-determinism", "no clock/env/rng/static/interior-mutability in the lexing cone", not bad, "", f"{len(cone)} functions; offending {bad[:4]}")
    # positive control for the matcher: the parser does use Cell (Parser.steps)
    ctrl = any("std::cell::" in c for f in prog.cone(["oq3_parser::parser::Parser::nth"]) for c in ext.get(f, ()))
    R.ob("C14.5-determinism", "positive-control", ctrl, "", "the same matcher finds std::cell::Cell in Parser::nth")

    # ---- C14.6 inventory of the lexing cone
    reviewed = reviewed_table()
    rv = {k.replace("C01.6-inventory:", "C14.6-inventory:"): v for k, v in reviewed.items() if k.startswith("C01.6-inventory:")}
    n = inventory.classify(prog, R, "C14.6-inventory", cone, rv)
    R.floor("panic-capable sites in the lexing cone", n, 12)
