"""Positional accessor tables (C05.3 ROLE, first cut without tree shapes).

The hand-written accessors of oq3_syntax::ast::{expr_ext,node_ext} select
children *by position* (`support::children::<T>(node).next()/.nth(k)`).  For
each of them the path enumerator derives a small decision table

    condition on presence of the k-th T-child  =>  returned value(s) as `T#k`

where `T#k` is "the k-th child castable to T" (k counted per iterator: next()
advances by one, nth(k) by k+1).  The table is compared with the role table
spec/positional_accessors.json, each row of which was confirmed against the
grammar function that builds the node (the reason is recorded with the row).
"""
import re
from kernel import norm
from sym import SymExec, show, deep_strip, strip_transparent
from sema import conds_of

AST = "oq3_syntax::ast::"
ITER = ("::next", "::nth", "::last")


def private_helpers(prog):
    """Non-public functions of the hand-written AST modules, other than the reviewed `nodes_around_else`: a public
    accessor that delegates to one of them is evaluated through it (the helper has no role of its own)."""
    # private functions that existed when the role tables were reviewed keep their own identity in the tables
    # (conditions such as `is_repeat(self)`, the reviewed helper accessors); only helpers introduced later are looked into
    KEEP = ("AstChildren::new", "expr_ext::ArrayExpr::is_repeat", "expr_ext::Gate::angles_and_or_qubits", "node_ext::AnnotationStatement::text",
            "node_ext::PragmaStatement::text", "node_ext::text_of_first_token", "node_ext::text_of_first_token::first_token")
    return {k for k, b in prog.bodies.items()
            if not k.endswith(KEEP) and k.startswith(AST) and "::generated::" not in k and "{closure" not in k and str(b.vis) not in ("pub", "n/a") and not k.endswith("::nodes_around_else")
            and not k.startswith((AST + "edit::", AST + "token_ext::", AST + "make::", AST + "support::", AST + "traits::", AST + "operators::", AST + "prec::"))}


def _selects_by_position(prog, k, helpers, depth=0):
    b = prog.body(k)
    cs = [(b.callee_of(t) or "") for _, t in b.calls()]
    if any(c.endswith(ITER) or c.endswith(("::skip", "::rev", "::nth_back", "::first_child", "::last_child", "::next_sibling", "::prev_sibling")) for c in cs):
        return True
    return depth < 3 and any(c in helpers and _selects_by_position(prog, c, helpers, depth + 1) for c in cs)


def positional_accessors(prog):
    out = []
    helpers = private_helpers(prog)
    for k, b in sorted(prog.bodies.items()):
        if not k.startswith(AST) or "::generated::" in k or "{closure" in k or k.startswith(AST + "edit::") or k.startswith(AST + "token_ext::") or k.startswith(AST + "make::"):
            continue
        if k.endswith("::nodes_around_else") or k in helpers:
            continue            # helpers: nodes_around_else is checked by helper_check(); private ones are looked into from their callers
        if _selects_by_position(prog, k, helpers):
            out.append(k)
    return out


def table(prog, fn, inline_local=True):
    """[(conditions tuple, result string)] sorted; None if the accessor uses an idiom the model does not know."""
    b = prog.body(fn)
    helpers = private_helpers(prog)

    def ty_of_site(site):
        """child type T of the support::children::<T> / child::<T> call at a call site (through inlined helpers)"""
        body = b
        try:
            for (bb_, v_) in site[:-1]:
                body = prog.body(body.callee_of(body.blocks[bb_].term))
            t_ = body.blocks[site[-1][0]].term
            ra = t_.get("rargs") or t_.get("gargs") or ["?"]
            return ra[0].split("::")[-1]
        except Exception:
            return "?"

    class _TyAt(dict):
        def get(self, key, default=None):
            return ty_of_site(key) if isinstance(key, tuple) else default
    ty_at = _TyAt()
    rows = set()
    unknown = []
    def _opt_model(se_, st, t, cal, args, site):
        # Option tests and combinators in canonical form: a branch on the variant of the tested value, so that
        # `if b.is_some() { b } else { a }`, `match b { Some(_) => b, None => a }` and `b.or(a)` give the same rows
        if not (cal.startswith(("std::option::Option::", "core::option::Option::")) and cal.count("::") <= 4) or not args:
            return None
        nm = cal.rsplit("::", 1)[-1]
        d = ("discr", args[0])
        some = (("switch", d, ("eq", 1), "isize", site),)
        none = (("switch", d, ("eq", 0), "isize", site),)
        if nm == "is_some":
            return [(some, ("c", "bool", 1), False), (none, ("c", "bool", 0), False)]
        if nm == "is_none":
            return [(some, ("c", "bool", 0), False), (none, ("c", "bool", 1), False)]
        if nm == "or" and len(args) == 2:
            return [(some, args[0], False), (none, args[1], False)]
        if nm == "and" and len(args) == 2:
            return [(some, args[1], False), (none, ("adt", "std::option::Option::None", ()), False)]
        return None
    se = SymExec(prog, b, max_paths=400, call_model=_opt_model, inline=lambda c: c in helpers)
    for p in se.paths():
        if "__diverged__" in p.env:
            continue
        counters = {}
        label = {}
        for (name, args, bb), csite in zip(p.calls, p.sites if len(p.sites) == len(p.calls) else [None] * len(p.calls)):
            if not (name.endswith(ITER) and ("AstChildren" in name or "vec::IntoIter" in name) or name.endswith("Iterator::nth") or name.endswith("Iterator::last")):
                if name.endswith(("::skip", "::rev", "::nth_back", "::step_by", "::filter", "::collect", "::peekable")):
                    unknown.append(name.split("::")[-1])
                continue
            it = strip_transparent(args[0])
            # the iterator must be a children::<T>(..) call term of this body
            root = it
            while isinstance(root, tuple) and root[0] in ("field",):
                root = root[1]
            # `self.nodes_around_else(after).into_iter()`: the child nodes before / after the `else` keyword
            r2 = root
            if isinstance(r2, tuple) and r2[0] == "call" and r2[1].endswith("::into_iter") and r2[2]:
                r2 = strip_transparent(r2[2][0])
            if isinstance(r2, tuple) and r2[0] == "call" and r2[1].endswith("::nodes_around_else") and len(r2[2]) == 2 and isinstance(r2[2][1], tuple) and r2[2][1][0] == "c":
                key = r2[3]
                T = "node-after-else" if r2[2][1][2] else "node-before-else"
            elif isinstance(root, tuple) and root[0] == "call" and root[1].endswith("support::children"):
                key = root[3]
                T = ty_at.get(tuple(key), "?")
            else:
                unknown.append("iterator origin " + show(root)[:40])
                continue
            c0 = counters.get(key, 0)
            if name.endswith("::next"):
                idx, c1 = c0, c0 + 1
            elif name.endswith("::nth"):
                k = deep_strip(args[1])
                if not (isinstance(k, tuple) and k[0] == "c" and isinstance(k[2], int)):
                    unknown.append("nth(non-constant)")
                    continue
                idx, c1 = c0 + k[2], c0 + k[2] + 1
            else:
                unknown.append("last")
                continue
            counters[key] = c1
            label[tuple(csite) if csite else ((bb, 0),)] = f"{T}#{idx}"

        def ren(t):
            t = strip_transparent(t) if isinstance(t, tuple) else t
            if not isinstance(t, tuple):
                return str(t)
            if t[0] == "call" and t[3] and tuple(t[3]) in label and t[1].endswith(ITER):
                return label[tuple(t[3])]
            if t[0] in ("call", "pure"):
                nm = t[1].split("::")[-1]
                if t[1].endswith("support::child") and t[3]:
                    return ty_at.get(tuple(t[3]), "?") + "#first"
                return nm + "(" + ", ".join(ren(x) for x in t[2]) + ")"
            if t[0] == "tuple":
                return "(" + ", ".join(ren(x) for x in t[1]) + ")"
            if t[0] == "adt":
                return t[1].split("::", 2)[-1].replace("std::option::", "") + ("(" + ", ".join(ren(x) for x in t[2]) + ")" if t[2] else "")
            if t[0] == "field":
                return ren(t[1]) + "." + str(t[2])
            if t[0] == "discr":
                return "variant(" + ren(t[1]) + ")"
            if t[0] == "arg":
                return t[2]
            return show(t)
        def cond(t, c):
            # name the selected variant: `T#k` is an Option<T>, `T#k.0` a T, `branch(x)` a ControlFlow
            if isinstance(t, tuple) and t[0] == "discr":
                s = ren(t[1])
                base = s[len("branch("):-1] if s.startswith("branch(") and s.endswith(")") else s
                m = re.fullmatch(r"(\w+)#\d+((?:\.0)*)", base if not (s.startswith("branch(") and s.endswith(").0")) else s[len("branch("):-3] + ".0")
                names = None
                if s.startswith("branch(") and s.endswith(")"):
                    names = {0: "Continue", 1: "Break"}
                elif m and m.group(2) == "":
                    names = {0: "None", 1: "Some"}
                elif m and m.group(2) == ".0":
                    names = {d: n for n, d in prog.enum_variants(AST + "generated::nodes::" + m.group(1))} or None
                vals = c[1] if isinstance(c[1], tuple) else (c[1],)
                if names:
                    vals = tuple(names.get(v, v) for v in vals)
                return f"{s} {'is' if c[0] == 'eq' else 'is not'} {'|'.join(str(v) for v in vals)}"
            return f"{ren(t)} {c[0]} {c[1]}"
        conds = tuple(sorted({cond(t, c) for t, c in conds_of(p)}))
        rty = b.local_ty(0).replace("oq3_syntax::ast::generated::nodes::", "").replace("std::option::", "").replace("oq3_syntax::ast::", "")
        rows.add((conds, ren(deep_strip(p.env.get(0))) + " : " + rty))
    if se.truncated:
        unknown.append("path budget")
    return sorted(rows), sorted(set(unknown))


def check(prog, R, rule, floor=18):
    """Compare the derived positional tables with the reviewed role table."""
    import json, os
    V = os.path.dirname(os.path.dirname(os.path.abspath(__file__)))
    spec = {e["accessor"]: e for e in json.load(open(os.path.join(V, "spec", "positional_accessors.json")))}
    n = 0
    for fn in positional_accessors(prog):
        short = fn.replace(AST, "")
        rows, unk = table(prog, fn)
        b = prog.body(fn)
        n += 1
        if unk:
            R.ob(rule, short, False, b.at, f"positional accessor uses an idiom the role model does not cover ({unk}); its role table cannot be derived")
            continue
        e = spec.get(short)
        if e is None:
            R.ob(rule, short, False, b.at, f"new positional accessor (selects children by position) without a reviewed role table; derived: {rows[:3]}")
            continue
        want = sorted((tuple(r["when"]), r["returns"]) for r in e["rows"])
        diff = [r for r in rows if r not in want] + [("missing",) + r for r in want if r not in rows]
        R.ob(rule, short, not diff, b.at, f"{len(rows)} rows agree with the role table ({e['reason'][:100]})" if not diff else f"role table differs from the reviewed one: {diff[:3]} (reviewed: {want[:3]})")
    # accessors that must select by position: their type also occurs in a later slot of the same node, so that
    # "first child of type T" returns the wrong constituent when the slot is filled by the alternative
    MUST_BE_POSITIONAL = {"node_ext::AssignmentStmt::identifier": "ASSIGNMENT_STMT = (IDENTIFIER | INDEXED_IDENTIFIER) '=' value: with an indexed target and an identifier value (`a[0] = b;`) the first Identifier child is the value"}
    have = {fn.replace(AST, "") for fn in positional_accessors(prog)}
    for acc, why in sorted(MUST_BE_POSITIONAL.items()):
        b = prog.body(AST + acc)
        R.ob(rule, acc + ":positional", acc in have, b.at if b else "", "selects its constituent by position" if acc in have else f"selects by type (support::child::<T>) although {why}")
    # a reviewed accessor that still exists but no longer selects by position in a way the model derives: its role
    # table cannot be compared any more (fail closed)
    for acc in sorted(spec):
        if AST + acc in prog.bodies and AST + acc not in set(positional_accessors(prog)):
            R.ob(rule, acc, False, prog.body(AST + acc).at, "this accessor has a reviewed role table but its implementation no longer uses children().next()/nth(k) or the nodes_around_else helper: the constituent it returns cannot be derived; re-review it (tools/gen_positional.py)")
    helper_check(prog, R, rule)
    R.floor("positional accessors with a role table", n, floor)


def as_reviewed(prog, acc):
    """The accessor (short name as in spec/positional_accessors.json) still selects by position exactly as reviewed."""
    import json, os
    V = os.path.dirname(os.path.dirname(os.path.abspath(__file__)))
    spec = {e["accessor"]: e for e in json.load(open(os.path.join(V, "spec", "positional_accessors.json")))}
    e = spec.get(acc)
    if e is None or AST + acc not in set(positional_accessors(prog)):
        return False
    rows, unk = table(prog, AST + acc)
    return not unk and sorted(rows) == sorted((tuple(r["when"]), r["returns"]) for r in e["rows"])


def helper_check(prog, R, rule):
    """IfStmt::nodes_around_else(after_else): the child *nodes* of the statement, split at the `else` keyword token."""
    b = prog.body(AST + "node_ext::IfStmt::nodes_around_else")
    if b is None:
        return          # accessors do not use the helper
    cals = [(b.callee_of(t) or "").split("::")[-1] for _, t in b.calls()]
    consts = set()
    for bi, si, st in b.stmts_with_pos():
        if st["k"] == "assign" and st["rv"]["k"] == "agg" and st["rv"].get("vname"):
            consts.add(st["rv"]["vname"])
    from kernel import origins
    kinds = set()
    for bi, t in b.calls():
        for a in t["args"]:
            for og in origins(prog, b, a, max_depth=3):
                if og[0] == "agg" and (og[1] or "").endswith("SyntaxKind"):
                    kinds.add(og[2])
    ok = "children_with_tokens" in cals and "push" in cals and kinds == {"ELSE_KW"}
    R.ob(rule, "node_ext::IfStmt::nodes_around_else", ok, b.at, f"walks children_with_tokens, splits at {sorted(kinds)}, collects nodes with push" if ok else f"helper shape changed: calls {sorted(set(cals))[:8]}, kinds compared {sorted(kinds)}")
