"""Runs the grammar abstract interpreter (K7) once per source tree and caches
its result on disk (keyed by the tree hash and the hash of the analyser's own
sources), so that the six properties that use it share one run."""
import hashlib, os, pickle, sys, time
from collections import defaultdict
from kernel import norm
import grammar_ai

ROOT = "oq3_parser::grammar::entry::top::source_file"
_mem = {}


def _src_hash():
    h = hashlib.sha256()
    d = os.path.dirname(os.path.abspath(__file__))
    for f in ("grammar_ai.py", "grammar_run.py", "kernel.py", os.path.join("..", "spec", "valid_prefixes.json"), os.path.join("..", "spec", "mandatory_operands.json")):
        with open(os.path.join(d, f), "rb") as fh:
            h.update(fh.read())
    return h.hexdigest()[:16]


class GResult:
    budget_exceeded = None


class AIUnavailable(Exception):
    pass


def get(prog):
    key = prog.dir
    if key in _mem:
        if _mem[key].budget_exceeded:
            raise AIUnavailable(_mem[key].budget_exceeded)
        return _mem[key]
    # the result depends only on the facts of oq3_parser and on the analyser sources
    h = hashlib.sha256()
    with open(os.path.join(prog.dir, "oq3_parser.json"), "rb") as f:
        h.update(f.read())
    cdir = os.path.join(os.path.dirname(prog.dir), "ai")
    os.makedirs(cdir, exist_ok=True)
    cache = os.path.join(cdir, f"ai.{h.hexdigest()[:20]}.{_src_hash()}.pkl")
    if os.path.exists(cache):
        r = None
        try:
            with open(cache, "rb") as f:
                r = pickle.load(f)
        except Exception:
            r = None
        if r is not None:
            r.cache_hit = True
            _mem[key] = r
            if r.budget_exceeded:
                raise AIUnavailable(r.budget_exceeded)
            return r
    t0 = time.time()
    ai = grammar_ai.GrammarAI(prog)
    def _run(*a_, **kw_):
        try:
            return ai.run(*a_, **kw_)
        except grammar_ai.BudgetExceeded as e:
            # the abstract interpreter did not reach a fixpoint within its wall-clock budget (contexts keep growing,
            # typically because some path leaks a marker or never consumes): nothing that depends on it is decided
            r = GResult()
            r.cache_hit = False
            r.budget_exceeded = str(e)
            r.wall = time.time() - t0
            _mem[key] = r
            try:
                with open(cache + ".tmp", "wb") as f:
                    pickle.dump(r, f)
                os.replace(cache + ".tmp", cache)
            except Exception:
                pass
            raise AIUnavailable(r.budget_exceeded)
    rootkey = _run(ROOT)
    # ---- statement-position dispatch probes (C16 / C04): item vs stmt per first token
    ITEM, STMT = "oq3_parser::grammar::items::item", "oq3_parser::grammar::expressions::stmt"
    probes = {}
    semi = 1 << ai.kdisc["SEMICOLON"]
    A = ai.alphabet
    for kbit in grammar_ai.bits(A):
        if kbit == ai.kdisc["EOF"]:
            continue
        probes[(ai.kname[kbit],)] = ((1 << kbit), A, A, A, 0, 0)
        probes[(ai.kname[kbit], "SEMICOLON", "SEMICOLON")] = ((1 << kbit), semi, semi, A, 0, 0)
        probes[(ai.kname[kbit], "SEMICOLON", "~SEMICOLON")] = ((1 << kbit), semi, A & ~semi, A, 0, 0)      # the same one-token statement followed by anything but `;`
    probe_keys = {}
    for pr, w in probes.items():
        for fn, args in ((ITEM, (grammar_ai.PARSER, grammar_ai.B_F)), (STMT, (grammar_ai.PARSER,))):
            if fn in prog.bodies:
                probe_keys[(fn, pr)] = _run(fn, win=w, args=args)
    # ---- expression-start probes (C04.1): lhs() per first token
    LHS = "oq3_parser::grammar::expressions::lhs"
    lhs_keys = {}
    if LHS in prog.bodies:
        for kbit in grammar_ai.bits(A):
            for pref in (grammar_ai.B_F, grammar_ai.B_T):
                restr = ("agg", "oq3_parser::grammar::expressions::Restrictions", 0, (pref,))
                lhs_keys[(ai.kname[kbit], pref[1])] = _run(LHS, win=((1 << kbit), A, A, A, 0, 0), args=(grammar_ai.PARSER, restr))
    # ---- list-item probes (C04.1): the expression-list flavours per first token of an item
    list_keys = {}
    for fn in ("oq3_parser::grammar::params::expression_list", "oq3_parser::grammar::params::case_value_list", "oq3_parser::grammar::params::array_literal"):
        if fn not in prog.bodies:
            continue
        for kbit in grammar_ai.bits(A):
            if fn.endswith("array_literal"):
                w = (1 << ai.kdisc["L_CURLY"], (1 << kbit), A, A, 0, 0)
            else:
                w = ((1 << kbit), A, A, A, 0, 0)
            list_keys[(fn, ai.kname[kbit])] = _run(fn, win=w, args=(grammar_ai.PARSER,))
    # ---- block-statement probes (C16.3): `{ } k ...` in statement position: the block statement must end at its brace
    blk_keys = {}
    LC, RC = 1 << ai.kdisc["L_CURLY"], 1 << ai.kdisc["R_CURLY"]
    for kbit in grammar_ai.bits(A):
        if STMT in prog.bodies:      # (`item` is not probed: it parses the whole remaining statement list)
            blk_keys[(STMT, ai.kname[kbit])] = _run(STMT, win=(LC, RC, (1 << kbit), A, 0, 0), args=(grammar_ai.PARSER,))
    # ---- valid-prefix probes (C04.2): up to four token kinds that begin a valid statement, at both entry points
    import json as _json
    pref_keys = {}
    try:
        prefixes = _json.load(open(os.path.join(os.path.dirname(os.path.dirname(os.path.abspath(__file__))), "spec", "valid_prefixes.json")))["prefixes"]
    except Exception:
        prefixes = []
    for e in prefixes:
        toks = e["tokens"]
        if not all(t in ai.kdisc for t in toks):
            pref_keys[(tuple(toks), "?")] = None
            continue
        w = tuple((1 << ai.kdisc[toks[i]]) if i < len(toks) else A for i in range(4)) + (0, 0)
        for fn, args in ((ITEM, (grammar_ai.PARSER, grammar_ai.B_F)), (STMT, (grammar_ai.PARSER,))):
            if fn in prog.bodies:
                pref_keys[(tuple(toks), fn)] = _run(fn, win=w, args=args)
    # ---- mandatory-operand probes (C05.3): windows that must be rejected
    mand_keys = {}
    try:
        mprobes = _json.load(open(os.path.join(os.path.dirname(os.path.dirname(os.path.abspath(__file__))), "spec", "mandatory_operands.json")))["probes"]
    except Exception:
        mprobes = []
    for e in mprobes:
        toks = e["tokens"]
        if not all(t in ai.kdisc for t in toks) or e["fn"] not in prog.bodies:
            mand_keys[(e["fn"], tuple(toks))] = None
            continue
        w = tuple((1 << ai.kdisc[toks[i]]) if i < len(toks) else A for i in range(4)) + (0, 0)
        mand_keys[(e["fn"], tuple(toks))] = _run(e["fn"], win=w, args=(grammar_ai.PARSER,))
    r = GResult()
    r.cache_hit = False
    r.wall = time.time() - t0
    r.stats = dict(ai.stats)
    r.mandatory_probe = {k: (sorted(set((o[1], o[2]) for o in ai.memo[k0])) if k0 is not None else None) for k, k0 in mand_keys.items()}     # (consumed, error)
    r.alphabet = ai.alphabet
    r.alphabet_sources = ai.alphabet_sources
    r.kname = ai.kname
    r.kdisc = ai.kdisc
    r.contexts = len(ai.memo)
    r.analysed = sorted({k[0] for k in ai.memo})
    r.inlined = sorted({k[0] for k in ai.icache})
    r.alarms = []
    for key_, a, via in ai.all_alarms():
        r.alarms.append(dict(ctx=key_[0], rule=a.rule, fn=a.fn, site=a.site, what=a.what, extra=a.key_extra, via=via,
                             ctxwin=[ai.names(w, 6) for w in key_[1][:4]]))
    facts = defaultdict(int)
    fact_sites = defaultdict(set)
    for key_, f in ai.all_facts():
        facts[f[0]] += 1
        fact_sites[f[0]].add((f[1], f[2]))
    r.facts = dict(facts)
    r.fact_sites = {k: sorted(v, key=repr) for k, v in fact_sites.items()}
    # context-sensitive call edges, nodes numbered; label = function name
    ids = {}
    def nid(k):
        if k not in ids:
            ids[k] = len(ids)
        return ids[k]
    r.edges = {(nid(a), nid(b)): v for (a, b), v in ai.call_edges().items()}
    r.node_fn = {i: k[0] for k, i in ids.items()}
    r.node_ctx = {i: ([ai.names(w, 4) for w in k[1][:2]], str(k[2])[:200]) for k, i in ids.items()}
    # pre-consumption reach of every probe
    adj = {}
    for (a, b), v in ai.call_edges().items():
        if not v:
            adj.setdefault(a, set()).add(b)
    r.dispatch = {}
    for (fn, pr), k0 in probe_keys.items():
        seen, st = set(), [k0]
        while st:
            x = st.pop()
            if x in seen:
                continue
            seen.add(x)
            st.extend(adj.get(x, ()))
        outs = sorted(set((o[1], o[2]) for o in ai.memo[k0]))
        r.dispatch[(fn, pr)] = {"handlers": sorted(set(k[0] for k in seen)), "outs": outs}
    r.lhs_probe = {}
    for (kn, pref), k0 in lhs_keys.items():
        outs = ai.memo[k0]
        r.lhs_probe[(kn, pref)] = sorted(set((o[5][0] == "agg" and o[5][2] == 1, o[2], o[1]) for o in outs))   # (returns Some, error, consumed)
    r.list_probe = {k: sorted(set((o[1], o[2]) for o in ai.memo[k0])) for k, k0 in list_keys.items()}     # (consumed, error)
    r.block_probe = {k: sorted(set((o[0][0], o[1], o[2]) for o in ai.memo[k0])) for k, k0 in blk_keys.items()}     # (next-token set after the statement, consumed, error)
    r.prefix_probe = {k: (sorted(set((o[1], o[2]) for o in ai.memo[k0])) if k0 is not None else None) for k, k0 in pref_keys.items()}
    tp = defaultdict(set)
    for (fn_, mask_), cls_ in ai.token_parent.items():
        if mask_ > 0:
            for kb in grammar_ai.bits(mask_):
                tp[(fn_, ai.kname[kb])] |= cls_
    r.token_parent = {k: sorted(v) for k, v in tp.items()}
    r.edge_first = dict(ai.edge_first)
    r.node_tokens = dict(ai.node_tokens)      # completed-kind mask -> mask of token kinds consumed directly under the marker
    r.cm_kinds = dict(ai.cm_kinds)
    r.allkinds = {d: n for n, d in prog.enum_variants("oq3_parser::syntax_kind::syntax_kind_enum::SyntaxKind")}
    r.callargs = {k: sorted(v, key=repr) for k, v in ai.callargs.items()}
    r.memo = {k: sorted(v, key=repr) for k, v in ai.memo.items()}
    r.rootkey = rootkey
    r.widened = sorted(ai.widened)
    r.runs_by_fn = dict(ai.runs_by_fn)
    try:
        with open(cache + ".tmp", "wb") as f:
            pickle.dump(r, f)
        os.replace(cache + ".tmp", cache)
    except Exception:
        pass
    _mem[key] = r
    return r


def names(r, mask, limit=10):
    ks = [r.kname.get(i, str(i)) for i in grammar_ai.bits(mask)]
    if len(ks) > limit:
        return "{" + ",".join(ks[:limit]) + f",…{len(ks)}}}"
    return "{" + ",".join(ks) + "}"
