"""Symbolic terms and a path enumerator over MIR bodies (engine K9/K2 helper).

Terms (hashable nested tuples):
  ('c', ty, value)                      constant (int / str / 'zst' / item path)
  ('adt', 'path::Variant', (fields..))  aggregate
  ('tuple', (fields..))
  ('arg', i, name)
  ('call', callee, (args..), site)      result of a call (site = bb index, for identity)
  ('field', term, idx)
  ('discr', term)
  ('bin', op, a, b) / ('un', op, a) / ('cast', to, a)
  ('closure', path, (captures..))
  ('fn', path)
  ('?', note)

The path enumerator executes statements along each acyclic CFG path (a block
may be visited at most `max_visits` times per path) keeping an environment
local -> term.  It is a static, fully path-sensitive abstract interpretation
with a free term algebra; no solver is involved and no repository code runs.
"""
import json
from kernel import norm, const_of, is_transparent


def show(t, depth=0):
    if not isinstance(t, tuple):
        return str(t)
    k = t[0]
    if k == "c":
        v = t[2]
        if t[1] == "bool" and isinstance(v, int):
            return "true" if v else "false"
        return repr(v) if isinstance(v, str) else str(v)
    if k == "adt":
        name = "::".join(t[1].split("::")[-2:])
        if not t[2]:
            return name
        return f"{name}({', '.join(show(f) for f in t[2])})"
    if k == "tuple":
        return "(" + ", ".join(show(f) for f in t[1]) + ")"
    if k == "arg":
        return t[2] or f"arg{t[1]}"
    if k in ("call", "pure"):
        return f"{t[1].split('::')[-1] if not t[1].startswith('<') else t[1]}({', '.join(show(a) for a in t[2])})"
    if k == "sym":
        return str(t[1])
    if k == "field":
        return f"{show(t[1])}.{t[2]}"
    if k == "discr":
        return f"discr({show(t[1])})"
    if k == "bin":
        return f"{t[1]}({show(t[2])}, {show(t[3])})"
    if k == "un":
        return f"{t[1]}({show(t[2])})"
    if k == "cast":
        return f"({show(t[2])} as {t[1]})"
    if k == "closure":
        return f"closure {t[1].split('::', 1)[-1]}"
    if k == "fn":
        return f"fn {t[1]}"
    return str(t)


def strip_transparent(t):
    """Look through clone/into/deref/... calls."""
    while isinstance(t, tuple) and len(t) == 5 and t[0] == "call" and t[4] and t[2]:
        t = t[2][0]
    return t


def deep_strip(t):
    """strip_transparent applied recursively through the whole term."""
    t = strip_transparent(t)
    if isinstance(t, tuple):
        if not t or t[0] in ("c", "sym", "arg", "fn"):
            return t
        return tuple(deep_strip(x) if isinstance(x, tuple) else x for x in t)
    return t


class PathState:
    __slots__ = ("env", "conds", "calls", "trace", "stores", "sites")

    def __init__(self, env=None, conds=(), calls=(), trace=(), stores=(), sites=()):
        self.env = env or {}
        self.conds = conds
        self.calls = calls
        self.trace = trace
        self.stores = stores
        self.sites = sites            # call-site identity of each entry of `calls` (same order): ((block, visit), ...) with the sites of the inlining calls first

    def fork(self):
        return PathState(dict(self.env), self.conds, self.calls, self.trace, self.stores, self.sites)


PURE_SUFFIXES = ("::eq", "::ne", "cmp::max", "cmp::min")


def is_pure_std(cal):
    """Side-effect free std functions whose result is a function of the
    argument values only: they get no call-site identity, so two calls with
    the same argument terms denote the same value."""
    if not cal:
        return False
    if cal.startswith("oq3_") or cal.startswith("<oq3_"):
        return False
    return cal.endswith(PURE_SUFFIXES) or " as std::cmp::PartialEq" in cal or " as core::cmp::PartialEq" in cal


class SymExec:
    def __init__(self, prog, body, max_paths=20000, max_visits=1, opaque_calls=True, call_model=None, inline=None, depth=0, site_prefix=()):
        self.prog = prog
        self.body = body
        self.max_paths = max_paths
        self.max_visits = max_visits
        self.call_model = call_model
        self.inline = inline          # callable(callee npath) -> bool : evaluate callee body on the abstract arguments
        self.depth = depth
        self.site_prefix = site_prefix
        self.truncated = False

    # ---- term construction
    def init_env(self):
        env = {}
        for i in range(1, self.body.nargs + 1):
            env[i] = ("arg", i, self.body.local_name(i))
        return env

    def place(self, env, pl):
        t = env.get(pl["l"], ("?", f"_{pl['l']}"))
        for p in pl["p"]:
            if p[0] == "deref":
                continue
            if p[0] == "downcast":
                continue
            if p[0] == "field":
                t = self.proj_field(t, p[1])
            elif p[0] == "index":
                t = ("index", t, env.get(p[1], ("?", f"_{p[1]}")))
            else:
                t = ("proj", t, p[0]) if len(p) < 2 else ("proj", t, p[0], p[1])      # constant index kept: [a, b] elements stay distinct
        return t

    def proj_field(self, t, idx):
        tt = strip_transparent(t)
        if isinstance(tt, tuple) and tt[0] == "adt" and idx < len(tt[2]):
            return tt[2][idx]
        if isinstance(tt, tuple) and tt[0] == "tuple" and idx < len(tt[1]):
            return tt[1][idx]
        if isinstance(tt, tuple) and tt[0] == "closure" and idx < len(tt[2]):
            return tt[2][idx]          # captured variable of a closure value (inlined closure bodies read them)
        return ("field", tt, idx)

    def operand(self, env, op):
        k = op.get("k")
        if k in ("copy", "move"):
            return self.place(env, op["pl"])
        if k == "const":
            if "fn" in op:
                return ("fn", norm(op["fn"]))
            if "promoted" in op:
                return self.promoted(op["promoted"])
            if "value" in op:
                return self.const_tree(op["value"])
            v = const_of(op)
            if v is None:
                v = op.get("item") or ("zst" if op.get("zst") else op.get("dbg", "?"))
            ty = op["ty"]
            # field-less enum constants given as scalars: map to the variant
            vs = self.prog.enum_variants(norm(ty))
            if vs and isinstance(v, int):
                for name, d in vs:
                    if d == v:
                        return ("adt", norm(ty) + "::" + name, ())
            return ("c", ty, v)
        return ("?", "op")

    def const_tree(self, j):
        if "fields" in j:
            fs = tuple(self.const_tree(f) for f in j["fields"])
            if j["ty"].startswith("("):
                return ("tuple", fs)
            return ("adt", norm(j["ty"]).split("<")[0] + "::" + j.get("vname", "?"), fs)
        if "bits" in j:
            return self.operand({}, {"k": "const", "ty": j["ty"], "bits": j["bits"]})
        return ("?", "const")

    def promoted(self, idx):
        try:
            pj = self.body.j["promoted"][idx]
        except Exception:
            return ("?", "promoted")
        env = {}
        for bl in pj["blocks"]:
            for s_ in bl["stmts"]:
                if s_["k"] == "assign" and not s_["lhs"]["p"]:
                    env[s_["lhs"]["l"]] = self.rvalue(env, s_["rv"], None)
        return env.get(0, ("?", "promoted"))

    def rvalue(self, env, rv, bb):
        k = rv["k"]
        if k == "use":
            return self.operand(env, rv["op"])
        if k in ("ref", "rawptr"):
            return self.place(env, rv["pl"])
        if k == "cast":
            a = self.operand(env, rv["op"])
            if rv["kind"] in ("IntToInt",) or "Pointer" in rv["kind"] or rv["kind"] == "Transmute":
                if rv["kind"] == "IntToInt":
                    return ("cast", rv["to"], a)
                return a
            return ("cast", rv["to"], a)
        if k == "binop":
            return self.fold_bin(rv["op"], self.operand(env, rv["a"]), self.operand(env, rv["b"]), rv.get("ty", "?"))
        if k == "unop":
            a = self.operand(env, rv["a"])
            if rv["op"] == "Not" and isinstance(a, tuple) and a[0] == "c" and a[1] == "bool":
                return ("c", "bool", 0 if a[2] else 1)
            return ("un", rv["op"], a)
        if k == "discr":
            d = ("discr", self.place(env, rv["pl"]))
            kd = self.known_discr(d)
            if kd is not None:
                return ("c", "isize", kd)
            return d
        if k == "agg":
            fs = tuple(self.operand(env, f) for f in rv["fields"])
            if "adt" in rv:
                return ("adt", norm(rv["adt"]) + "::" + rv["vname"], fs)
            if "closure" in rv:
                return ("closure", norm(rv["closure"]), fs)
            return ("tuple", fs)
        if k == "repeat":
            return ("repeat", self.operand(env, rv["op"]))
        return ("?", k)

    def fold_bin(self, op, a, b, ty):
        ka = a[2] if isinstance(a, tuple) and a[0] == "c" and isinstance(a[2], int) else None
        kb = b[2] if isinstance(b, tuple) and b[0] == "c" and isinstance(b[2], int) else None
        if ka is not None and kb is not None:
            f = {"Eq": lambda x, y: int(x == y), "Ne": lambda x, y: int(x != y), "Lt": lambda x, y: int(x < y), "Le": lambda x, y: int(x <= y),
                 "Gt": lambda x, y: int(x > y), "Ge": lambda x, y: int(x >= y), "BitAnd": lambda x, y: x & y, "BitOr": lambda x, y: x | y}.get(op)
            if f:
                r = f(ka, kb)
                return ("c", "bool" if op in ("Eq", "Ne", "Lt", "Le", "Gt", "Ge") else ty, r)
            if op in ("Add", "Sub", "Mul"):
                r = {"Add": ka + kb, "Sub": ka - kb, "Mul": ka * kb}[op]
                if r >= 0:
                    return ("c", ty, r)
        if op in ("Eq", "Ne") and a == b:
            return ("c", "bool", 1 if op == "Eq" else 0)
        return ("bin", op, a, b)

    # ---- branch feasibility
    def known_discr(self, t):
        """If t is ('discr', adt-aggregate) return its discriminant value."""
        if isinstance(t, tuple) and t[0] == "discr":
            inner = strip_transparent(t[1])
            if isinstance(inner, tuple) and inner[0] == "adt":
                path = inner[1]
                adt, vname = path.rsplit("::", 1)
                vs = self.prog.enum_variants(adt)
                if vs:
                    for name, d in vs:
                        if name == vname:
                            return d
                # std enums
                if adt.endswith("option::Option"):
                    return {"None": 0, "Some": 1}.get(vname)
                if adt.endswith("result::Result"):
                    return {"Ok": 0, "Err": 1}.get(vname)
                if adt.endswith("ops::ControlFlow"):
                    return {"Continue": 0, "Break": 1}.get(vname)
        if isinstance(t, tuple) and t[0] == "c" and isinstance(t[2], int):
            return t[2]
        if isinstance(t, tuple) and t[0] == "adt" and not t[2]:
            adt, vname = t[1].rsplit("::", 1)
            vs = self.prog.enum_variants(adt)
            if vs:
                for name, d in vs:
                    if name == vname:
                        return d
        return None

    # ---- enumeration
    def paths(self, start_env=None):
        """Yield PathState for every explored path that reaches `return`
        (state.trace is the tuple of blocks; state.env the final environment).
        Paths ending in a diverging block are yielded with trace[-1] == that block
        and env['__diverged__'] set."""
        body = self.body
        out = []
        st0 = PathState(start_env or self.init_env())
        stack = [(0, st0, {})]
        npaths = 0
        while stack:
            bb, st, visits = stack.pop()
            if npaths >= self.max_paths:
                self.truncated = True
                break
            v = visits.get(bb, 0)
            if v >= self.max_visits:
                # loop: cut the path here, mark
                st.env["__cut__"] = bb
                st.trace = st.trace + (bb,)
                out.append(st)
                npaths += 1
                continue
            visits = dict(visits)
            visits[bb] = v + 1
            bl = body.blocks[bb]
            st.trace = st.trace + (bb,)
            for s_ in bl.stmts:
                if s_["k"] == "assign":
                    val = self.rvalue(st.env, s_["rv"], bb)
                    if not s_["lhs"]["p"]:
                        st.env[s_["lhs"]["l"]] = val
                    else:
                        st.stores = st.stores + ((self.place_key(st.env, s_["lhs"]), val, bb),)
                        self.store(st.env, s_["lhs"], val)
            t = bl.term
            k = t["k"]
            if k == "return":
                out.append(st)
                npaths += 1
            elif k == "goto":
                stack.append((t["target"], st, visits))
            elif k in ("drop",):
                stack.append((t["target"], st, visits))
            elif k == "assert":
                c = self.operand(st.env, t["cond"])
                st.conds = st.conds + (("assert", c, t["expected"], bb),)
                stack.append((t["target"], st, visits))
            elif k == "call":
                args = tuple(self.operand(st.env, a) for a in t["args"])
                cal = body.callee_of(t) or ("indirect:" + json.dumps(t.get("callee_op"))[:80])
                transparent = is_transparent(t.get("callee"), t.get("resolved"))
                site = self.site_prefix + ((bb, v),)
                alts = None
                if self.call_model:
                    alts = self.call_model(self, st, t, cal, args, site)
                    if alts is not None and not isinstance(alts, list):
                        alts = [((), alts, False)]
                if alts is None:
                    alts = self.default_call(cal, args, site, transparent, t)
                st.calls = st.calls + ((cal, args, bb),)
                st.sites = st.sites + (site,)
                for ai, alt in enumerate(alts):
                    extra, val, div = alt[0], alt[1], alt[2]
                    s2 = st if ai == len(alts) - 1 else st.fork()
                    if len(alt) > 3 and alt[3]:
                        s2.calls = s2.calls + tuple(alt[3])      # calls made inside an inlined callee, in order
                        s2.sites = s2.sites + (tuple(alt[5]) if len(alt) > 5 and alt[5] and len(alt[5]) == len(alt[3]) else tuple(None for _ in alt[3]))
                    ok = True
                    for c in extra:
                        if not self.consistent(s2, c):
                            ok = False
                            break
                        s2.conds = s2.conds + (c,)
                    if not ok:
                        continue
                    if div or t["target"] is None:
                        s2.env["__diverged__"] = bb
                        if len(alt) > 4 and alt[4]:
                            s2.env["__cut__"] = bb          # the inlined callee was cut inside a loop (not a panic)
                        out.append(s2)
                        npaths += 1
                    else:
                        if not t["dest"]["p"]:
                            s2.env[t["dest"]["l"]] = val
                        else:
                            self.store(s2.env, t["dest"], val)
                        stack.append((t["target"], s2, visits))
            elif k == "switch":
                d = self.operand(st.env, t["discr"])
                kd = self.known_discr(d)
                if isinstance(d, tuple) and d[0] == "c" and isinstance(d[2], int):
                    kd = d[2]
                cases = [(int(c[0]), c[1]) for c in t["cases"]]
                if kd is not None:
                    tgt = None
                    for val, target in cases:
                        if val == kd:
                            tgt = target
                    if tgt is None:
                        tgt = t["otherwise"]
                    stack.append((tgt, st, visits))
                else:
                    vals = [c[0] for c in cases]
                    # otherwise first (so that DFS order is stable)
                    branches = [(("ne", tuple(vals)), t["otherwise"])] + [(("eq", val), target) for val, target in cases]
                    for cond, target in branches:
                        if body.blocks[target].term["k"] == "unreachable" and not body.blocks[target].stmts:
                            continue
                        c = ("switch", d, cond, t["ty"], self.site_prefix + (bb,) if self.site_prefix else bb)
                        if not self.consistent(st, c):
                            continue
                        s2 = st.fork()
                        s2.conds = s2.conds + (c,)
                        stack.append((target, s2, visits))
            elif k in ("unreachable", "resume", "terminate"):
                st.env["__diverged__"] = bb
                out.append(st)
                npaths += 1
            else:
                st.env["__diverged__"] = bb
                out.append(st)
                npaths += 1
        return out

    def consistent(self, st, c):
        """Is branch condition c compatible with the conditions already on the path
        (same discriminant term constrained before)?"""
        if c[0] != "switch":
            return True
        d, cond = c[1], c[2]
        for o in st.conds:
            if o[0] != "switch" or o[1] != d:
                continue
            oc = o[2]
            if oc[0] == "eq" and cond[0] == "eq" and oc[1] != cond[1]:
                return False
            if oc[0] == "eq" and cond[0] == "ne" and oc[1] in cond[1]:
                return False
            if oc[0] == "ne" and cond[0] == "eq" and cond[1] in oc[1]:
                return False
        return True

    def default_call(self, cal, args, site, transparent, t):
        """[(extra conds, value term, diverged)] for a call."""
        if cal in ("std::ops::Fn::call", "std::ops::FnMut::call_mut", "std::ops::FnOnce::call_once", "core::ops::Fn::call", "core::ops::FnMut::call_mut", "core::ops::FnOnce::call_once") and args:
            # a closure value called through the Fn* traits (a closure received as a parameter): the closure's body
            f0 = strip_transparent(args[0])
            if isinstance(f0, tuple) and f0[0] == "closure" and f0[1] in self.prog.bodies and self.inline and self.inline(f0[1]):
                cal = f0[1]
                args = (f0,) + tuple(args[1:])
        # intrinsics / trivial std
        if cal.endswith("intrinsics::discriminant_value") and args:
            d = ("discr", args[0])
            kd = self.known_discr(d)
            return [((), ("c", "isize", kd) if kd is not None else d, False)]
        if cal.startswith(("std::char::methods::", "core::char::methods::")) and args:
            # ASCII class predicates on a constant character
            a0 = strip_transparent(args[0])
            if isinstance(a0, tuple) and a0[0] == "c" and isinstance(a0[2], int):
                ch = chr(a0[2]) if 0 <= a0[2] < 0x110000 else None
                nm = cal.rsplit("::", 1)[-1]
                f = {"is_ascii_digit": lambda c: c.isascii() and c.isdigit(), "is_ascii_hexdigit": lambda c: c in "0123456789abcdefABCDEF",
                     "is_ascii_alphabetic": lambda c: c.isascii() and c.isalpha(), "is_ascii_alphanumeric": lambda c: c.isascii() and c.isalnum(),
                     "is_ascii_lowercase": lambda c: c.isascii() and c.islower(), "is_ascii_uppercase": lambda c: c.isascii() and c.isupper(),
                     "is_ascii_whitespace": lambda c: c in " \t\n\x0c\r", "is_ascii": lambda c: c.isascii()}.get(nm)
                if f and ch is not None:
                    return [((), ("c", "bool", 1 if f(ch) else 0), False)]
        if cal.endswith(" as std::ops::Try>::branch") and args:
            # `x?` on a value whose variant is known: Continue(payload) / Break(residual); a symbolic value stays opaque
            a0 = strip_transparent(args[0])
            if isinstance(a0, tuple) and a0[0] == "adt":
                if a0[1].endswith("Option::Some") or a0[1].endswith("Result::Ok"):
                    return [((), ("adt", "std::ops::ControlFlow::Continue", (a0[2][0],) if a0[2] else ()), False)]
                if a0[1].endswith("Option::None"):
                    return [((), ("adt", "std::ops::ControlFlow::Break", (("adt", "std::option::Option::None", ()),)), False)]
        if cal.startswith("<std::option::Option<T> as std::ops::FromResidual") and cal.endswith("::from_residual"):
            # `expr?` on an Option in a function returning Option: the early return value is None
            return [((), ("adt", "std::option::Option::None", ()), False)]
        if cal.endswith(("::eq", "::ne")) and len(args) == 2 and self.structural_eq_ok(cal):
            alts = self.eq_alts(strip_transparent(args[0]), strip_transparent(args[1]), site)
            if alts is not None:
                neg = cal.endswith("::ne")
                return [(cs, ("c", "bool", int(v != neg)), False) for cs, v in alts]
        if self.inline and not transparent and self.depth < 8 and cal in self.prog.bodies and self.inline(cal):
            cb = self.prog.bodies[cal]
            sub = SymExec(self.prog, cb, max_paths=self.max_paths, max_visits=self.max_visits, call_model=self.call_model, inline=self.inline, depth=self.depth + 1, site_prefix=site)
            env = {}
            cargs = list(args)
            if "{closure#" in cal.rsplit("::", 1)[-1] and len(cargs) == 2 and isinstance(cargs[1], tuple) and cargs[1][0] == "tuple":
                # called through Fn/FnMut/FnOnce: the arguments arrive tupled, the closure body takes them untupled
                cargs = [cargs[0]] + list(cargs[1][1])
            for i, a in enumerate(cargs):
                env[i + 1] = a
            alts = []
            for p in sub.paths(env):
                div = "__diverged__" in p.env or "__cut__" in p.env
                alts.append((p.conds, p.env.get(0, ("?", "ret")), div, p.calls, "__cut__" in p.env, p.sites))
            if sub.truncated:
                self.truncated = True
            return alts
        if is_pure_std(cal):
            a = args
            name = cal
            if cal.endswith("::ne") and len(args) == 2:
                # ne(x,y) == !eq(x,y): share the eq term
                eqname = cal[:-2] + "eq"
                aa = tuple(sorted(args, key=repr))
                if aa[0] == aa[1]:
                    return [((), ("c", "bool", 0), False)]
                et = ("pure", eqname, aa)
                return [((("switch", et, ("eq", 0), "bool", site),), ("c", "bool", 1), False), ((("switch", et, ("ne", (0,)), "bool", site),), ("c", "bool", 0), False)]
            if cal.endswith("::eq") and len(args) == 2:
                aa = tuple(sorted(args, key=repr))
                if aa[0] == aa[1]:
                    return [((), ("c", "bool", 1), False)]
                return [((), ("pure", cal, aa), False)]
            if cal.endswith(("cmp::max", "cmp::min")):
                aa = tuple(sorted(args, key=repr))
                if aa[0] == aa[1]:
                    return [((), aa[0], False)]
                return [((), ("pure", "max" if cal.endswith("max") else "min", aa), False)]
            return [((), ("pure", cal, args), False)]
        return [((), ("call", cal, args, site, transparent), False)]

    def structural_eq_ok(self, cal):
        """eq/ne is structural equality: std impls, or a local #[derive(PartialEq)] body."""
        if cal in self.prog.bodies:
            return "PartialEq" in self.prog.bodies[cal].exp
        if cal in ("std::cmp::PartialEq::ne", "core::cmp::PartialEq::ne", "std::cmp::PartialEq::eq"):
            return True
        return not (cal.startswith("oq3_") or cal.startswith("<oq3_"))

    def eq_alts(self, a, b, site):
        """[(conds, bool)] for structural equality; unknown leaf comparisons become
        atomic conditions eq(x,y) on `pure` terms.  None if nothing is known."""
        r = self.struct_eq(a, b)
        if r is not None:
            return [((), r)]
        if isinstance(a, tuple) and isinstance(b, tuple) and a[0] == "adt" and b[0] == "adt" and a[1] == b[1]:
            alts = [((), True)]
            for x, y in zip(a[2], b[2]):
                sub = self.eq_alts(strip_transparent(x), strip_transparent(y), site)
                if sub is None:
                    aa = tuple(sorted((strip_transparent(x), strip_transparent(y)), key=repr))
                    et = ("pure", "eq", aa)
                    sub = [((("switch", et, ("ne", (0,)), "bool", site),), True), ((("switch", et, ("eq", 0), "bool", site),), False)]
                new = []
                for cs, v in alts:
                    if not v:
                        new.append((cs, False))
                        continue
                    for cs2, v2 in sub:
                        new.append((cs + cs2, v2))
                alts = new
            return alts
        if isinstance(a, tuple) and isinstance(b, tuple) and a[0] == "sym" and b[0] == "sym":
            aa = tuple(sorted((a, b), key=repr))
            et = ("pure", "eq", aa)
            return [((("switch", et, ("ne", (0,)), "bool", site),), True), ((("switch", et, ("eq", 0), "bool", site),), False)]
        return None

    def struct_eq(self, a, b):
        """True / False / None(unknown) for structural equality of two terms."""
        if a == b:
            return True
        if isinstance(a, tuple) and isinstance(b, tuple):
            if a[0] == "adt" and b[0] == "adt":
                if a[1] != b[1]:
                    return False
                res = True
                for x, y in zip(a[2], b[2]):
                    r = self.struct_eq(strip_transparent(x), strip_transparent(y))
                    if r is False:
                        return False
                    if r is None:
                        res = None
                return res
            if a[0] == "c" and b[0] == "c" and a[1] == b[1] and not isinstance(a[2], str) or (a[0] == "c" and b[0] == "c" and isinstance(a[2], str) and isinstance(b[2], str) and a[1] == b[1] == "&str"):
                return a[2] == b[2]
        return None

    def place_key(self, env, pl):
        return (pl["l"], tuple((p[0], p[1] if len(p) > 1 else None) for p in pl["p"]))

    def store(self, env, pl, val):
        """Strong update of a field of an aggregate we know; otherwise ignored."""
        base = env.get(pl["l"])
        fields = [p for p in pl["p"] if p[0] == "field"]
        if len(fields) == 1 and isinstance(base, tuple) and base[0] in ("adt", "tuple"):
            idx = fields[0][1]
            if base[0] == "adt" and idx < len(base[2]):
                fs = list(base[2])
                fs[idx] = val
                env[pl["l"]] = ("adt", base[1], tuple(fs))
            elif base[0] == "tuple" and idx < len(base[1]):
                fs = list(base[1])
                fs[idx] = val
                env[pl["l"]] = ("tuple", tuple(fs))
        elif len(fields) == 1 and base is None:
            # building a tuple field by field (e.g. checked-op results)
            pass


def cond_str(prog, c):
    if c[0] == "assert":
        return f"assert({show(c[1])}=={c[2]})"
    _, d, cond, ty, bb = c
    if cond[0] == "eq":
        return f"{show(d)}=={variant_name(prog, d, ty, cond[1])}"
    return f"{show(d)} not in {[variant_name(prog, d, ty, v) for v in cond[1]]}"


def variant_name(prog, d, ty, v):
    if ty == "bool":
        return "true" if v else "false"
    return v


def term_calls(t, acc=None):
    """All ('call', ...) subterms."""
    if acc is None:
        acc = []
    if isinstance(t, tuple):
        if t and t[0] == "call":
            acc.append(t)
        for x in t:
            if isinstance(x, tuple):
                term_calls(x, acc)
    return acc


def term_contains(t, pred):
    if pred(t):
        return True
    if isinstance(t, tuple):
        return any(term_contains(x, pred) for x in t if isinstance(x, tuple))
    return False


def term_contains_all(t, pred):
    """all sub-terms satisfying pred"""
    out = []
    if pred(t):
        out.append(t)
    if isinstance(t, tuple):
        for x in t:
            if isinstance(x, tuple):
                out += term_contains_all(x, pred)
    return out


def must_conds(paths, bb):
    """Branch conditions (as (term, cond) pairs) that hold on *every* explored
    path before it first reaches block bb; None if no path reaches bb."""
    acc = None
    for p in paths:
        if bb not in p.trace:
            continue
        pos = p.trace.index(bb)
        before = set(p.trace[:pos])
        cs = {(c[1], c[2]) for c in p.conds if c[0] == "switch" and c[4] in before}
        acc = cs if acc is None else (acc & cs)
    return acc


def const_value(t):
    """Integer value of a closed arithmetic term (constants, casts, Div/Rem/shift/mask/add/sub/mul, trailing_zeros,
    count_ones), or None when some part is not a constant.  Used by rules that tabulate a small pure function on a
    range of inputs (e.g. the word/bit index of the jointness bit vector)."""
    W = {"u8": 8, "u16": 16, "u32": 32, "u64": 64, "usize": 64, "u128": 128, "i8": 8, "i16": 16, "i32": 32, "i64": 64, "isize": 64, "i128": 128}
    t = strip_transparent(t) if isinstance(t, tuple) else t
    if not isinstance(t, tuple):
        return None
    if t[0] == "c" and isinstance(t[2], int):
        return t[2]
    if t[0] == "cast":
        v = const_value(t[2])
        if v is None:
            return None
        w = W.get(str(t[1]).split("::")[-1])
        return v & ((1 << w) - 1) if w and not str(t[1]).startswith("i") else v
    if t[0] == "bin":
        a, b = const_value(t[2]), const_value(t[3])
        if a is None or b is None:
            return None
        try:
            return {"Div": lambda: a // b, "Rem": lambda: a % b, "Shr": lambda: a >> b, "Shl": lambda: a << b, "BitAnd": lambda: a & b, "BitOr": lambda: a | b,
                    "BitXor": lambda: a ^ b, "Add": lambda: a + b, "Sub": lambda: a - b, "Mul": lambda: a * b,
                    "ShrUnchecked": lambda: a >> b, "ShlUnchecked": lambda: a << b, "AddUnchecked": lambda: a + b, "SubUnchecked": lambda: a - b, "MulUnchecked": lambda: a * b,
                    "AddWithOverflow": lambda: a + b, "SubWithOverflow": lambda: a - b, "MulWithOverflow": lambda: a * b}[t[1]]()
        except (KeyError, ZeroDivisionError, ValueError):
            return None
    if t[0] == "field" and isinstance(t[1], tuple) and t[1][0] == "bin" and t[1][1].endswith("WithOverflow") and t[2] == 0:
        return const_value(t[1])
    if t[0] in ("call", "pure") and isinstance(t[1], str) and len(t) > 2 and t[2]:
        v = const_value(t[2][0])
        if v is None:
            return None
        if t[1].endswith("::trailing_zeros"):
            return (v & -v).bit_length() - 1 if v else None
        if t[1].endswith("::count_ones"):
            return bin(v).count("1")
    return None
