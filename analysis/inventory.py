import os
"""K6 — panic-site inventory over a call-graph cone."""
from collections import defaultdict
from kernel import *

PANICKY_SUFFIX = ("::unwrap", "::expect", "::unwrap_err", "::expect_err", "::unwrap_unchecked",
                  "Index<I>>::index", "IndexMut<I>>::index_mut", "::index", "::index_mut",
                  "::split_at", "::remove", "::swap_remove", "::copy_from_slice", "RefCell<T>>::borrow", "RefCell<T>>::borrow_mut",
                  "::borrow_mut", "::from_str_radix_assert", "::unreachable_unchecked")
ASSERT_MACROS = ("assert", "debug_assert", "unreachable", "panic", "todo", "unimplemented", "assert_eq", "assert_ne", "debug_assert_eq", "debug_assert_ne")


def ishort(fn):
    fn = norm(fn)
    for c in ("oq3_lexer", "oq3_parser", "oq3_syntax", "oq3_source_file", "oq3_semantics"):
        if fn.startswith(c + "::"):
            return c[4:] + "::" + fn[len(c) + 2:]
        if fn.startswith("<" + c + "::"):
            return fn.replace("oq3_", "")
    return fn


def is_panicky_callee(c):
    if not c:
        return False
    if c.endswith(("::unwrap", "::expect", "::unwrap_err", "::expect_err")) and ("option::Option" in c or "result::Result" in c):
        return True
    if "ops::Index<" in c or "ops::IndexMut<" in c or c.endswith(("ops::Index::index", "ops::IndexMut::index_mut")):
        return True
    if c in ("core::str::split_at", "core::slice::split_at", "std::vec::Vec::remove", "std::vec::Vec::swap_remove", "std::vec::Vec::insert", "std::vec::Vec::drain",
             "core::slice::copy_from_slice", "std::string::String::remove", "std::string::String::insert"):
        return True
    if c.endswith("::borrow_mut") and "RefCell" in c:
        return True
    return False


def sites_in(prog, fns, include_macro_internal=False):
    """All panic-capable sites: list of dict(fn, bb, kind, descr, at, callee)."""
    out = []
    for fn in sorted(fns):
        b = prog.body(fn)
        if not b:
            continue
        for bl in b.blocks:
            if bl.cleanup:
                continue
            t = bl.term
            if t["k"] == "call":
                cal = b.callee_of(t) or ""
                if t["target"] is None:
                    msg = ""
                    for a in t["args"]:
                        if a.get("k") == "const" and "str" in a:
                            msg = a["str"]
                    macro = [e for e in t.get("exp", []) if e in ASSERT_MACROS]
                    out.append(dict(fn=fn, bb=bl.idx, kind="panic", descr=f"{(macro or [cal.split('::')[-1]])[0]}:{msg[:60]}", at=t["at"], callee=cal))
                elif is_panicky_callee(cal):
                    # operand provenance as part of the key
                    src = ""
                    if t["args"]:
                        o = origins(prog, b, t["args"][0])
                        cs = sorted(x[1].split("::")[-1] for x in o if x[0] == "call" and x[1])
                        ar = sorted(str(x[2]) for x in o if x[0] == "arg")
                        src = "<-" + ",".join((cs + ar)[:3])
                    short_c = cal.split("::")[-1] if not cal.startswith("<") else ("index" if "Index" in cal else cal.split("::")[-1])
                    tyhint = ""
                    if short_c in ("index", "index_mut"):
                        tyhint = "(" + ty_adt(str(t["argtys"][0]) if t.get("argtys") else "").split("::")[-1] + ")"
                    out.append(dict(fn=fn, bb=bl.idx, kind="call", descr=f"{short_c}{tyhint}{src}", at=t["at"], callee=cal))
            elif t["k"] == "assert":
                out.append(dict(fn=fn, bb=bl.idx, kind="assert", descr="assert:" + t["kind"], at=t["at"], callee=""))
    # ordinals among equal (fn, descr)
    seen = defaultdict(int)
    for s_ in out:
        k = (s_["fn"], s_["descr"])
        s_["ord"] = seen[k]
        seen[k] += 1
        s_["key"] = f"{ishort(s_['fn'])}|{s_['descr']}|{s_['ord']}"
    return out


def const_assert_ok(prog, body, bb):
    """An Assert terminator whose condition is a compile-time constant equal to
    the expected value (e.g. shift by an associated constant < bit width,
    division by a non-zero constant)."""
    from sym import SymExec
    t = body.blocks[bb].term
    if t["k"] != "assert":
        return False
    se = SymExec(prog, body)
    env = {}
    for s_ in body.blocks[bb].stmts:
        if s_["k"] == "assign" and not s_["lhs"]["p"]:
            env[s_["lhs"]["l"]] = se.rvalue(env, s_["rv"], bb)
    c = se.operand(env, t["cond"])
    return isinstance(c, tuple) and c[0] == "c" and isinstance(c[2], int) and bool(c[2]) == bool(t["expected"])


def dominating_guard(b, bb, spec):
    """spec = {"op": "Gt", "local": "n_digits", "const": "6", "edge": False}: the site block bb must be dominated by
    the `edge` successor of a two-way switch on `<op>(<local>, <const>)` (the other successor must not dominate it),
    i.e. the site is executed only when the comparison has that truth value.  Returns (ok, description)."""
    dom = b.dominators()
    found = []
    for bl in b.blocks:
        t = bl.term
        if bl.cleanup or t["k"] != "switch" or t["discr"].get("k") not in ("move", "copy"):
            continue
        dl = t["discr"]["pl"]["l"]
        # defining statement of the switch operand in this block
        cmpst = None
        copies = {}
        for st in bl.stmts:
            if st["k"] != "assign" or st["lhs"]["p"]:
                continue
            rv = st["rv"]
            if rv["k"] == "use" and rv["op"].get("k") in ("copy", "move") and not rv["op"]["pl"]["p"]:
                copies[st["lhs"]["l"]] = rv["op"]["pl"]["l"]
            if st["lhs"]["l"] == dl and rv["k"] == "binop":
                cmpst = rv
        if not cmpst or cmpst["op"] != spec["op"]:
            continue
        a, c = cmpst["a"], cmpst["b"]
        if a.get("k") not in ("copy", "move") or c.get("k") != "const" or str(c.get("int", c.get("bits"))) != str(spec["const"]):
            continue
        l = a["pl"]["l"]
        while l in copies:
            l = copies[l]
        if spec.get("local") is not None:
            if b.local_name(l) != spec["local"]:
                continue
        else:
            # the compared value is the (single) result of a call to <from_call>
            defs = [t2 for _, t2 in b.calls() if t2.get("dest") and t2["dest"]["l"] == l and not t2["dest"]["p"]]
            if len(defs) != 1 or not (b.callee_of(defs[0]) or "").endswith(spec["from_call"]):
                continue
        # successor for truth value `edge`
        cases = {str(v): tgt for v, tgt in t["cases"]}
        want = cases.get("1" if spec["edge"] else "0", t["otherwise"])
        other = [x for x in set(list(cases.values()) + [t["otherwise"]]) if x != want]
        found.append((bl.idx, want, other))
        if want in dom[bb] and not any(o in dom[bb] for o in other):
            return True, f"dominated by the {'true' if spec['edge'] else 'false'} edge of `{spec['op']}({spec.get('local') or spec.get('from_call')}, {spec['const']})` (bb{bl.idx} -> bb{want})"
    return False, f"no dominating {'true' if spec['edge'] else 'false'} edge of `{spec['op']}({spec.get('local') or spec.get('from_call')}, {spec['const']})` (candidates {found})"


_premise_cache = {}


def premise_failures(prog, own_pid, premises):
    """Reviewed reasons may lean on obligations of another rule module ("<PID>:<rule prefix>").  Those are
    re-evaluated here (once per module and process); failures that are listed known findings of that
    property are not counted (they are reported there)."""
    if not premises:
        return []
    import importlib, json, os
    from framework import Result, load_known
    out = []
    for pr in premises:
        pid, pref = pr.split(":", 1)
        if pid == own_pid:
            continue        # same module: the obligation is recorded (and fails) in this very run
        ck = (prog.dir, pid)
        if ck not in _premise_cache:
            mod = importlib.import_module(pid)
            r2 = Result(pid, "premise")
            mod.run(prog, r2)
            known = {k["key"] for k in load_known() if k.get("property") == pid and k.get("status") == "known"}
            _premise_cache[ck] = [o for o in r2.obls if not o["ok"] and o["key"] not in known]
        out += [o["key"] for o in _premise_cache[ck] if o["rule"].startswith(pref)]
    return out


def classify(prog, R, rule, fns, reviewed, skip=lambda s: False, auto=None):
    """Record one obligation per panic-capable site of `fns`:
    discharged (constant assert), reviewed (table entry, with frozen callers
    where the reason depends on the call context), or violation."""
    cg = prog.callgraph()
    callers = defaultdict(set)
    for a, bs in cg.items():
        for b_ in bs:
            callers[b_].add(a)
    sites = sites_in(prog, fns)
    n = 0
    # reviewed sites that are gone from the tree (their function was renamed, merged or split): a new site of the same
    # kind and description in the same crate takes over such an entry once (the code moved, it did not appear), unless
    # the entry's reason is tied to the old function's structure (callers / guard / dominating call / grammar fact)
    present = {f"{rule}:{x['key']}" for x in sites}
    # (an entry for a function that still exists but lies outside this rule's cone is not an orphan: the table is
    # shared between properties whose cones differ)
    cone_short = {ishort(f) for f in fns}
    all_short = {ishort(f) for f in prog.bodies}

    def _fn_of(k):
        return k.split(":", 1)[1].split("|")[0]
    orphans = [k for k, e in reviewed.items() if k.startswith(rule + ":") and k not in present and not any(e.get(c) for c in ("calls_dominated", "after_first", "completes"))
               and (_fn_of(k) in cone_short or _fn_of(k) not in all_short)]

    def _eff_callers(fn_, want_):
        def _exp(cs, depth=0):
            out_ = set()
            for c in cs:
                cb_ = prog.body(c)
                if c in want_ or depth >= 3 or cb_ is None or str(cb_.vis) == "pub" or not callers.get(c):
                    out_.add(c)
                else:
                    out_ |= _exp(callers.get(c, ()), depth + 1)
            return out_
        # a site inside a closure of F is reached under F's call contexts
        return sorted(_exp(callers.get(fn_.split("::{closure")[0], ())))

    if os.environ.get("OQ3_DEBUG_ORPHANS"):
        print("ORPHANS", rule, len(orphans), orphans[:12])

    def _mid(k):
        parts = k.split("|")
        m_ = parts[1] if len(parts) >= 3 else ""
        # an index on a Vec, on a slice or a compiler-inserted bounds check are the same kind of site
        if m_.startswith(("index(Vec)", "index(slice)", "index([")) or m_ == "assert:BoundsCheck":
            return "index-bounds"
        # `unwrap<-f` names the function whose result is unwrapped (part of the site's identity); for other calls the
        # text after `<-` only describes where an argument came from, which a rewrite changes
        if "<-" in m_ and not m_.startswith(("unwrap<-", "expect<-", "unwrap_or_else<-")):
            return m_.split("<-")[0]
        return m_

    def _take_orphan(full, fn_=None, site_=None):
        crate = full.split(":", 1)[1].split("::")[0]
        mid = _mid(full)
        for i, o in enumerate(orphans):
            if o.split(":", 1)[1].split("::")[0] != crate:
                continue
            wc = reviewed[o].get("callers")
            if wc is not None and (fn_ is None or _eff_callers(fn_, wc) != sorted(wc)):
                continue        # the reason rests on the call contexts: they must still be the same
            if reviewed[o].get("guard") and (site_ is None or not dominating_guard(prog.body(site_["fn"]), site_["bb"], reviewed[o]["guard"])[0]):
                continue        # the reason is a dominating guard: it must hold at the new place as well
            om = _mid(o)
            if om == mid or (mid.split(":")[0] in ("debug_assert", "assert", "unreachable", "panic") and om.split(":")[0] == mid.split(":")[0] and om[:34] == mid[:34]):
                return orphans.pop(i)
        return None
    known_keys = set()
    try:
        from framework import load_known
        known_keys = {k["key"] for k in load_known() if k.get("property") == R.pid and k.get("status") == "known"}
        known_orphans = [k["key"] for k in load_known() if k.get("property") == R.pid and k.get("status") == "known" and k["key"].startswith(rule + ":") and k["key"] not in present
                         and (_fn_of(k["key"]) in cone_short or _fn_of(k["key"]) not in all_short)]
    except Exception as ex_:
        known_orphans = []
        if os.environ.get("OQ3_DEBUG_ORPHANS"):
            print("KNOWN-ORPHANS-ERROR", repr(ex_))

    def _take_known(full):
        crate = full.split(":", 1)[1].split("::")[0]
        mid = _mid(full)
        for i, o in enumerate(known_orphans):
            if o.split(":", 1)[1].split("::")[0] == crate and _mid(o) == mid:
                return known_orphans.pop(i)
        return None
    for s_ in sites:
        if skip(s_):
            continue
        n += 1
        b = prog.body(s_["fn"])
        key = s_["key"]
        full = f"{rule}:{key}"
        if auto is not None and auto(s_):
            R.ob(rule, key, True, s_["at"], "compiler-inserted validity check on a reference/box produced by safe code (cannot fail)")
            continue
        if s_["kind"] == "assert" and const_assert_ok(prog, b, s_["bb"]):
            R.ob(rule, key, True, s_["at"], "assert condition is a compile-time constant (shift amount / divisor is an evaluated constant within range)")
            continue
        e = reviewed.get(full)
        moved = None
        if e is None:
            moved = _take_orphan(full, s_["fn"], s_)
            if moved is not None:
                e = dict(reviewed[moved])
                e["reason"] = f"(site moved here from {moved.split(':', 1)[1].split('|')[0]}, which no longer has it) " + e["reason"]
        if e is None and full not in known_keys:
            ko = _take_known(full)
            if ko is not None:
                # the site of a recorded finding moved (its function was merged / renamed): still the same finding
                R.ob(rule, ko.split(":", 1)[1], False, s_["at"], f"recorded finding; the site now lives in {key.split('|')[0]}")
                continue
        if e is None:
            R.ob(rule, key, False, s_["at"], f"new panic-capable site in the cone ({s_['kind']}: {s_['descr']}, callee {s_['callee']}): not discharged by a rule and not in the reviewed table")
            continue
        want = e.get("callers")
        if want is not None:
            # a module-private helper between the reviewed caller and the site stands for its own callers
            def _expand(cs, depth=0):
                out_ = set()
                for c in cs:
                    cb_ = prog.body(c)
                    if c in want or depth >= 3 or cb_ is None or str(cb_.vis) == "pub" or not callers.get(c):
                        out_.add(c)
                    else:
                        out_ |= _expand(callers.get(c, ()), depth + 1)
                return out_
            have = sorted(_expand(callers.get(s_["fn"].split("::{closure")[0], ())))      # a closure's site is reached under its parent's call contexts
            if sorted(want) != have:
                R.ob(rule, key, False, s_["at"], f"reviewed under the call contexts {sorted(want)} but the function is now called from {have}: the reason must be re-confirmed")
                continue
        if e.get("after_first"):
            # "second and later unwraps of the same accessor": the site with ordinal 0 and the same description in
            # the same function must dominate this one
            first = [x for x in sites if x["fn"] == s_["fn"] and x["key"] == key.rsplit("|", 1)[0] + "|0"]
            if not (first and first[0]["bb"] in b.dominators()[s_["bb"]] and first[0]["bb"] != s_["bb"]):
                R.ob(rule, key, False, s_["at"], "reviewed as 'the first unwrap of the same accessor result dominates this one', which no longer holds")
                continue
        if e.get("calls_dominated"):
            # the site is safe in callers of the given family only after another call has happened there:
            # {"in": <caller npath prefix>, "by_call": <callee suffix>}: every call of this function in such a caller
            # is dominated by a call of by_call
            cd = e["calls_dominated"]
            badc = []
            for cb in prog.bodies.values():
                if not cb.npath.startswith(cd["in"]):
                    continue
                doms = None
                for bi, t in cb.calls():
                    if (cb.callee_of(t) or "") != s_["fn"]:
                        continue
                    doms = doms or cb.dominators()
                    pre = [x for x in doms[bi] if x != bi and cb.blocks[x].term.get("k") == "call" and (cb.callee_of(cb.blocks[x].term) or "").endswith(cd["by_call"])]
                    if not pre:
                        badc.append(f"{cb.npath.split('::')[-1]} at {t.get('at', '?')}")
            if badc:
                R.ob(rule, key, False, s_["at"], f"reviewed as safe because `{e['reason'][:110]}…`; in {cd['in']}* the call must come after {cd['by_call']}, which no longer holds for: {badc[:3]}")
                continue
        if e.get("guard"):
            okg, whyg = dominating_guard(b, s_["bb"], e["guard"])
            if not okg:
                R.ob(rule, key, False, s_["at"], f"reviewed as safe because of a guard (`{e['reason'][:100]}…`) that is no longer in place: {whyg}")
                continue
        if e.get("completes"):
            import shapes
            lost = [(f.split("::")[-1], ks) for f, ks, or_err in e["completes"] if shapes.always_completes(prog, f, ks, or_error=or_err) is not True]
            if lost:
                R.ob(rule, key, False, s_["at"], f"reviewed as unreachable because of the grammar fact `{e['reason'][:110]}…`, which no longer holds: {lost} can return without completing such a node" + (" or reporting a syntax error" if any(x[2] for x in e["completes"]) else ""))
                continue
        broken = premise_failures(prog, R.pid, e.get("premises"))
        if broken:
            R.ob(rule, key, False, s_["at"], f"reviewed as unreachable because of `{e['reason'][:120]}…`, but that premise no longer holds on this tree: {broken[:3]}")
            continue
        R.reviewed(rule, key, s_["at"], e["reason"])
    # stale entries are reported in info (not failures)
    return n
