"""K7 — token-kind abstract interpreter for the grammar (oq3_parser::{parser,grammar}).

Abstract parser state: lookahead window of 4 kind sets (bitmasks over SyntaxKind
discriminants), consumed / error flags, relative marker stack, per-loop progress
flags.  Values: kinds (optionally tied to a window slot), booleans (optionally
carrying a window test), small ints, pos+k, aggregates, closures, markers.
Path-sensitive (disjunctive states per block), context-sensitive summaries,
recursion by chaotic iteration from bottom.  Only the state-touching leaves are
modelled by hand (Input::kind / is_joint, the write to Parser.pos, push_event,
TokenSet::contains, the five marker operations); everything else, including all
other Parser methods and SyntaxKind predicates, is interpreted from MIR.
No repository code is executed.
"""
import sys
from collections import defaultdict, deque
from kernel import norm, ty_adt, ty_strip_refs

PP = "oq3_parser::parser::"
SK = "oq3_parser::syntax_kind::syntax_kind_enum::SyntaxKind"
TOP = ("top",)
PARSER = ("P",)
INP = ("inp",)
B_T, B_F, B_U = ("b", 1), ("b", 0), ("b", 2)
WIN = 4
INT_CAP = 300


def kind(mask, slot=-1):
    return ("k", mask, slot)


def bits(mask):
    out = []
    i = 0
    while mask:
        if mask & 1:
            out.append(i)
        mask >>= 1
        i += 1
    return out


class St:
    __slots__ = ("win", "consumed", "err", "ate_err", "cerr", "ms", "prog", "loc", "mt")

    def __init__(self, win, loc, ms=(), consumed=False, err=False, ate_err=False, cerr=False, prog=(), mt=()):
        self.mt = mt                # ((marker id, mask of token kinds consumed singly while it was the innermost open marker), ...)
        self.win = win
        self.loc = loc
        self.ms = ms
        self.consumed = consumed
        self.err = err
        self.ate_err = ate_err      # consumed a possibly-ERROR token before any error() in this activation
        self.cerr = cerr            # completed an ERROR node before any error() in this activation
        self.prog = prog            # tuple of (loop header, progressed?)

    def copy(self):
        return St(self.win, list(self.loc), self.ms, self.consumed, self.err, self.ate_err, self.cerr, self.prog, self.mt)

    def key(self):
        return (self.win, self.consumed, self.err, self.ate_err, self.cerr, self.ms, self.prog, tuple(self.loc), self.mt)


import heapq


class _Heap:
    """Worklist ordered by reverse post-order of the target block, so that a
    join point is processed after (almost) all its forward predecessors."""

    def __init__(self, rpo):
        self.h = []
        self.rpo = rpo
        self.n = 0

    def append(self, item):
        self.n += 1
        heapq.heappush(self.h, (self.rpo[item[0]], self.n, item))

    def pop(self):
        return heapq.heappop(self.h)[2]

    def __bool__(self):
        return bool(self.h)

    def __len__(self):
        return len(self.h)


class Alarm:
    def __init__(self, rule, fn, site, what, key_extra=""):
        self.rule, self.fn, self.site, self.what, self.key_extra = rule, fn, site, what, key_extra


class BudgetExceeded(Exception):
    pass


class GrammarAI:
    def __init__(self, prog, ctx_cap=400):
        import os as _os, time as _time
        self.deadline = _time.time() + float(_os.environ.get("OQ3_AI_BUDGET_S", "900"))
        self.prog = prog
        self.memo = {}
        self.deps = defaultdict(set)
        self.work = deque()
        self.inwork = set()
        self.alarms = {}          # ctxkey -> list of Alarm
        self.edge_consumed = {}   # (caller fn, callee fn) -> all calls preceded by consumption since caller entry?
        self.ctx_count = defaultdict(int)
        self.ctx_cap = ctx_cap
        self.widened = set()
        self.stats = defaultdict(int)
        self.tables = {}
        self.site_facts = defaultdict(list)   # rule -> list of discharged facts
        self.live_cache = {}
        self.outer_consumed = []
        self.cur_site = None
        self.callargs = defaultdict(set)
        self.node_tokens = defaultdict(int)   # mask of the completed node kind(s) -> mask of token kinds consumed directly under the marker (same path)
        self.token_parent = defaultdict(set)  # (grammar function, kind mask of a single consumed token) -> {"passed","local","none"}: whose marker is innermost when it is consumed
        self.edge_first = defaultdict(int)    # (caller, callee, bb) -> union of the kind sets of the next token when the call is made
        self.cm_kinds = defaultdict(int)      # (caller, callee) -> union of node-kind masks of CompletedMarker arguments (-1: unknown)
        self.runs_by_fn = defaultdict(int)
        self.rpo_cache = {}
        self.fnsteps = defaultdict(int)
        self.onstack = set()
        self.recursed = {}
        self.icache = {}
        sys.setrecursionlimit(20000)
        sk = prog.enum_variants(SK)
        self.kname = {d: n for n, d in sk}
        self.kdisc = {n: d for n, d in sk}
        self.sk_variant_by_index = [d for n, d in sk]
        self.EOF = 1 << self.kdisc["EOF"]
        self.ERROR = 1 << self.kdisc["ERROR"]
        self.alphabet = self.token_alphabet()
        self.TOPWIN = (self.alphabet,) * WIN + (0, 0)
        # context widening (precision/performance only, never soundness): for large lookahead sets only the
        # absence of delimiter-like kinds is kept in a callee context
        imp = 0
        for nme in ("EOF", "L_PAREN", "R_PAREN", "COMMA", "SEMICOLON", "L_BRACK", "R_BRACK", "L_CURLY", "R_CURLY", "COLON", "EQ", "AT"):
            if nme in self.kdisc:
                imp |= 1 << self.kdisc[nme]
        self.important = imp
        par = prog.adts[PP + "Parser"]["variants"][0]["fields"]
        self.pfield = {f["name"]: i for i, f in enumerate(par)}
        self.loops = {}
        self.contains_guarded = self.detect_contains_guard()

    def detect_contains_guard(self):
        """TokenSet::contains has the shape `(kind as _) < 128 && (self.0 & mask(kind)) != 0`?  (strict shape check: rule C01.4)"""
        b = self.prog.body("oq3_parser::token_set::TokenSet::contains")
        if not b:
            return False
        for bi, si, s_ in b.stmts_with_pos():
            if s_["k"] == "assign" and s_["rv"]["k"] == "binop" and s_["rv"]["op"] == "Lt":
                c = s_["rv"]["b"]
                if c.get("k") == "const" and c.get("bits") == "128":
                    return True
        return False

    # ------------------------------------------------------------------ alphabet
    def token_alphabet(self):
        """Kinds the parser can see: every SyntaxKind constructed in the token
        conversion tables of lexed_str / syntax_kind, minus trivia, plus EOF."""
        fns = ["oq3_parser::lexed_str::inner_extend_token", "oq3_parser::lexed_str::extend_literal_func",
               SK + "::from_keyword", SK + "::from_scalar_type"]
        m = 0
        self.alphabet_sources = {}
        for f in fns:
            b = self.prog.body(f)
            if not b:
                self.alphabet_sources[f] = None
                continue
            mm = 0
            for bi, si, s_ in b.stmts_with_pos():
                if s_["k"] == "assign":
                    for v in self.kinds_in_rv(s_["rv"]):
                        mm |= 1 << v
            self.alphabet_sources[f] = mm
            m |= mm
        for tr in ("WHITESPACE", "COMMENT"):
            m &= ~(1 << self.kdisc[tr])
        m |= 1 << self.kdisc["EOF"]
        return m

    def kinds_in_rv(self, rv):
        out = []
        if rv["k"] == "agg" and norm(rv.get("adt", "")) == SK:
            out.append(self.sk_variant_by_index[rv["variant"]])
        for op in (rv.get("op"), rv.get("a"), rv.get("b")):
            if isinstance(op, dict) and op.get("k") == "const" and norm(op.get("ty", "")) == SK and "bits" in op:
                out.append(int(op["bits"]))
        for f in rv.get("fields", []) or []:
            if f.get("k") == "const" and norm(f.get("ty", "")) == SK and "bits" in f:
                out.append(int(f["bits"]))
        return out

    def names(self, mask, limit=8):
        ks = [self.kname.get(i, str(i)) for i in bits(mask)]
        if len(ks) > limit:
            return "{" + ",".join(ks[:limit]) + f",…{len(ks)}}}"
        return "{" + ",".join(ks) + "}"

    # ------------------------------------------------------------------ driver
    def run(self, fn, win=None, args=None):
        b = self.prog.body(fn)
        if args is None:
            args = tuple(PARSER if "Parser" in b.local_ty(i) else TOP for i in range(1, b.nargs + 1))
        key = (fn, win or self.TOPWIN, args, ())
        self.request(key)
        self.fixpoint()
        return key

    def request(self, key):
        if key not in self.memo:
            self.memo[key] = set()
            self.enqueue(key)

    def enqueue(self, key):
        if key not in self.inwork:
            self.inwork.add(key)
            self.work.append(key)

    def fixpoint(self):
        n = 0
        while self.work:
            key = self.work.pop()
            self.inwork.discard(key)
            n += 1
            outs = self.analyze(key)
            if not outs <= self.memo[key]:
                self.memo[key] |= outs
                for d in self.deps[key]:
                    self.enqueue(d)
        self.stats["analyses"] += n

    def summary(self, callee_key, caller_key):
        self.deps[callee_key].add(caller_key)
        if callee_key not in self.memo:
            self.memo[callee_key] = set()
            if len(self.onstack) < 150:
                # analyse the callee right away (depth first) so that the caller sees its summary
                saved = (self.cur_alarms, self.cur_facts, self.cur_edges, self.depth, self.outer_consumed, self.cur_site)
                self.outer_consumed = []
                outs = self.analyze(callee_key)
                self.cur_alarms, self.cur_facts, self.cur_edges, self.depth, self.outer_consumed, self.cur_site = saved
                if not outs <= self.memo[callee_key]:
                    self.memo[callee_key] |= outs
                    for d in self.deps[callee_key]:
                        if d != caller_key:
                            self.enqueue(d)
                # the callee may have been re-requested by its own callees (recursion): make sure it is iterated
                if self.recursed.pop(callee_key, False):
                    self.enqueue(callee_key)
            else:
                self.enqueue(callee_key)
        elif callee_key in self.onstack:
            self.recursed[callee_key] = True
        return self.memo[callee_key]

    # ------------------------------------------------------------------ liveness
    def liveness(self, body):
        if body.npath in self.live_cache:
            return self.live_cache[body.npath]
        nb = len(body.blocks)
        use = [set() for _ in range(nb)]
        defs = [set() for _ in range(nb)]

        def op_use(op, acc):
            if op.get("k") in ("copy", "move"):
                acc.add(op["pl"]["l"])
                for p in op["pl"]["p"]:
                    if p[0] == "index":
                        acc.add(p[1])

        for bl in body.blocks:
            u, d = use[bl.idx], defs[bl.idx]
            for s_ in bl.stmts:
                if s_["k"] != "assign":
                    continue
                rv = s_["rv"]
                tmp = set()
                k = rv["k"]
                if k in ("ref", "rawptr", "discr"):
                    tmp.add(rv["pl"]["l"])
                else:
                    for key_ in ("op", "a", "b"):
                        if isinstance(rv.get(key_), dict):
                            op_use(rv[key_], tmp)
                    for f in rv.get("fields", []) or []:
                        op_use(f, tmp)
                for x in tmp:
                    if x not in d:
                        u.add(x)
                if s_["lhs"]["p"]:
                    if s_["lhs"]["l"] not in d:
                        u.add(s_["lhs"]["l"])
                else:
                    d.add(s_["lhs"]["l"])
            t = bl.term
            tmp = set()
            if t["k"] == "call":
                for a in t["args"]:
                    op_use(a, tmp)
                if "callee_op" in t:
                    op_use(t["callee_op"], tmp)
            elif t["k"] == "switch":
                op_use(t["discr"], tmp)
            elif t["k"] == "assert":
                op_use(t["cond"], tmp)
            elif t["k"] == "drop":
                tmp.add(t["pl"]["l"])
            elif t["k"] == "return":
                tmp.add(0)
            for x in tmp:
                if x not in d:
                    u.add(x)
            if t["k"] == "call":
                if t["dest"]["p"]:
                    if t["dest"]["l"] not in d:
                        u.add(t["dest"]["l"])
                # the destination is defined on the edge; treat as def at block end
        succ = body.succ()
        live_in = [set() for _ in range(nb)]
        changed = True
        while changed:
            changed = False
            for i in range(nb - 1, -1, -1):
                out = set()
                for s_ in succ[i]:
                    out |= live_in[s_]
                t = body.blocks[i].term
                if t["k"] == "call" and not t["dest"]["p"]:
                    out = out - {t["dest"]["l"]}
                new = use[i] | (out - defs[i])
                if new != live_in[i]:
                    live_in[i] = new
                    changed = True
        self.live_cache[body.npath] = live_in
        return live_in

    def rpo_index(self, body):
        c = self.rpo_cache.get(body.npath)
        if c is None:
            order = body._rpo()
            c = [len(body.blocks)] * len(body.blocks)
            for i, b in enumerate(order):
                c[b] = i
            self.rpo_cache[body.npath] = c
        return c

    def loop_info(self, body):
        if body.npath in self.loops:
            return self.loops[body.npath]
        loops = body.natural_loops()
        headers = {h: blocks for h, blocks in loops}
        back = set(body.back_edges())
        # irreducible regions: SCCs not covered by natural loops -> treat every block of the SCC as header
        covered = set()
        for h, bl in loops:
            covered |= bl
        for comp in body.sccs():
            if not comp <= covered:
                for h in comp:
                    headers.setdefault(h, set(comp))
        self.loops[body.npath] = (headers, back)
        return self.loops[body.npath]

    def canon_win(self, w):
        out = []
        for i in range(WIN):
            s = w[i]
            if bin(s).count("1") > 16:
                s = s | (self.alphabet & ~self.important)
            out.append(s)
        return tuple(out) + (w[4], w[5])

    # ------------------------------------------------------------------ values
    def is_parser_ty(self, t):
        return isinstance(t, str) and ty_adt(t) == PP + "Parser"

    def read_place(self, st, pl, body):
        v = st.loc[pl["l"]]
        if v is None:
            v = TOP
        for p in pl["p"]:
            k = p[0]
            if k == "deref" or k == "downcast":
                continue
            if k == "field":
                v = self.proj(v, p[1], p[2])
            else:
                v = TOP
        return v

    def proj(self, v, idx, fty):
        if v[0] == "agg":
            fs = v[3]
            return fs[idx] if idx < len(fs) else TOP
        if v[0] == "clos":
            return v[2][idx] if idx < len(v[2]) else TOP
        if v == PARSER:
            if idx == self.pfield["pos"]:
                return ("pos", 0)
            if idx == self.pfield["inp"]:
                return INP
            return TOP
        return TOP

    def const_val(self, op):
        ty = op["ty"]
        nty = norm(ty)
        if "fn" in op:
            return ("fn", norm(op["fn"]))
        if nty == SK and "bits" in op:
            return kind(1 << int(op["bits"]))
        if nty.endswith("token_set::TokenSet") and "bits" in op:
            return ("ts", int(op["bits"]))
        if ty == "bool" and "bits" in op:
            return B_T if int(op["bits"]) else B_F
        if "bits" in op and (ty in ("u8", "u16", "u32", "u64", "usize", "i8", "i16", "i32", "i64", "isize", "u128")):
            v = int(op.get("int", op["bits"]))
            return ("i", v)
        if "bits" in op:
            vs = self.prog.enum_variants(nty)
            if vs is not None:
                d = int(op["bits"])
                for i, (n, dd) in enumerate(vs):
                    if dd == d:
                        return ("agg", nty, i, ())
        if "promoted" in op:
            return ("promoted", op["promoted"])
        if "value" in op:
            return self.const_tree(op["value"])
        return TOP

    def const_tree(self, j):
        if "fields" in j:
            fs = tuple(self.const_tree(f) for f in j["fields"])
            ty = j["ty"]
            if ty.startswith("("):
                return ("agg", "tuple", 0, fs)
            return ("agg", ty_adt(ty), j.get("variant", 0), fs)
        if "bits" in j:
            return self.const_val({"ty": j["ty"], "bits": j["bits"]})
        return TOP

    def operand(self, st, op, body):
        k = op.get("k")
        if k in ("copy", "move"):
            return self.read_place(st, op["pl"], body)
        if k == "const":
            v = self.const_val(op)
            if v[0] == "promoted":
                return self.eval_promoted(body, v[1])
            return v
        return TOP

    def eval_promoted(self, body, idx):
        try:
            pj = body.j["promoted"][idx]
        except Exception:
            return TOP
        loc = [None] * len(pj["locals"])
        st = St(self.TOPWIN, loc)
        for bl in pj["blocks"]:
            for s_ in bl["stmts"]:
                if s_["k"] == "assign" and not s_["lhs"]["p"]:
                    loc[s_["lhs"]["l"]] = self.rvalue(st, s_["rv"], body)
        return loc[0] or TOP

    def rvalue(self, st, rv, body):
        k = rv["k"]
        if k == "use":
            return self.operand(st, rv["op"], body)
        if k in ("ref", "rawptr"):
            return self.read_place(st, rv["pl"], body)
        if k == "cast":
            v = self.operand(st, rv["op"], body)
            if rv["kind"] == "IntToInt":
                if v[0] in ("i", "pos"):
                    return v
                return TOP
            return v
        if k == "binop":
            return self.binop(rv["op"], self.operand(st, rv["a"], body), self.operand(st, rv["b"], body), rv.get("ty", ""))
        if k == "unop":
            v = self.operand(st, rv["a"], body)
            if rv["op"] == "Not" and v[0] == "b":
                return self.bnot(v)
            return TOP
        if k == "discr":
            v = self.read_place(st, rv["pl"], body)
            if v[0] == "k":
                return ("kd", v[1], v[2], rv["pl"]["l"] if not rv["pl"]["p"] else -1)
            if v[0] == "agg":
                return ("i", self.variant_discr(v[1], v[2]))
            if v[0] == "b":
                return v
            return TOP
        if k == "agg":
            fs = tuple(self.operand(st, f, body) for f in rv["fields"])
            if "adt" in rv:
                a = norm(rv["adt"])
                if a == SK:
                    return kind(1 << self.sk_variant_by_index[rv["variant"]])
                return ("agg", a, rv["variant"], fs)
            if "closure" in rv:
                return ("clos", norm(rv["closure"]), fs)
            return ("agg", "tuple", 0, fs)
        return TOP

    def variant_discr(self, adt, vidx):
        vs = self.prog.enum_variants(adt)
        if vs and vidx < len(vs):
            return vs[vidx][1]
        return vidx

    def bnot(self, v):
        if v[1] == 2:
            if len(v) > 2 and v[2] == "j":
                return B_U
            if len(v) > 2:
                return ("b", 2, v[2], v[4], v[3])
            return v
        return B_F if v[1] == 1 else B_T

    def binop(self, op, a, b, ty=""):
        cmp_ops = {"Eq": lambda x, y: x == y, "Ne": lambda x, y: x != y, "Lt": lambda x, y: x < y, "Le": lambda x, y: x <= y, "Gt": lambda x, y: x > y, "Ge": lambda x, y: x >= y}
        if a[0] == "i" and b[0] == "i":
            x, y = a[1], b[1]
            if op in cmp_ops:
                return B_T if cmp_ops[op](x, y) else B_F
            if op in ("Add", "AddWithOverflow", "AddUnchecked"):
                r = x + y
                cap = INT_CAP if ty == "u8" else 3     # counters (usize/u32) are abstracted beyond 3
                v = ("i", r) if r <= cap else TOP
                return ("agg", "tuple", 0, (v, B_F if (v != TOP or ty != "u8") else B_U)) if op == "AddWithOverflow" else v
            if op in ("Sub", "SubWithOverflow", "SubUnchecked"):
                r = x - y
                v = ("i", r) if r >= 0 else TOP
                return ("agg", "tuple", 0, (v, B_F if r >= 0 else B_T)) if op == "SubWithOverflow" else v
        if a[0] in ("i", "ige") and b[0] in ("i", "ige") and op in cmp_ops:
            INF = 1 << 60
            alo, ahi = (a[1], a[1]) if a[0] == "i" else (a[1], INF)
            blo, bhi = (b[1], b[1]) if b[0] == "i" else (b[1], INF)
            if op == "Lt":
                return B_T if ahi < blo else (B_F if alo >= bhi else B_U)
            if op == "Le":
                return B_T if ahi <= blo else (B_F if alo > bhi else B_U)
            if op == "Gt":
                return B_T if alo > bhi else (B_F if ahi <= blo else B_U)
            if op == "Ge":
                return B_T if alo >= bhi else (B_F if ahi < blo else B_U)
            return B_U
        if a[0] in ("pos", "posold") and b[0] in ("pos", "posold") and op in ("Eq", "Ne"):
            if a[0] == "pos" and b[0] == "pos":
                r = a[1] == b[1]
            elif a[0] == "posold" and b[0] == "posold":
                return B_U
            else:
                other = a if a[0] == "pos" else b
                if other[1] >= 0:
                    r = False      # an older position is strictly smaller than the current one
                else:
                    return B_U
            return (B_T if r else B_F) if op == "Eq" else (B_F if r else B_T)
        if a[0] == "pos" and b[0] == "i" and op in ("Add", "AddWithOverflow"):
            v = ("pos", a[1] + b[1])
            # overflow of a token index: bounded by the input size (< 2^31 tokens)
            return ("agg", "tuple", 0, (v, B_F)) if op == "AddWithOverflow" else v
        if a[0] in ("k", "kd") and b[0] in ("k", "kd") and op in ("Eq", "Ne"):
            r = self.kind_eq(a, b)
            return r if op == "Eq" else self.bnot(r)
        if a[0] == "b" and b[0] == "b" and op in ("BitAnd", "BitOr", "Eq", "Ne"):
            if a[1] != 2 and b[1] != 2:
                r = {"BitAnd": a[1] & b[1], "BitOr": a[1] | b[1], "Eq": int(a[1] == b[1]), "Ne": int(a[1] != b[1])}[op]
                return B_T if r else B_F
            if op == "BitAnd" and (a == B_F or b == B_F):
                return B_F
            if op == "BitOr" and (a == B_T or b == B_T):
                return B_T
            return B_U
        if op in ("AddWithOverflow", "SubWithOverflow", "MulWithOverflow"):
            return ("agg", "tuple", 0, (TOP, B_U))
        if op in cmp_ops:
            return B_U
        return TOP

    def kind_eq(self, a, b):
        """Bool for a == b on kinds; carries a window test when one side is tied to a slot and the other is a singleton."""
        ma, mb = a[1], b[1]
        if ma & mb == 0:
            return B_F
        if ma == mb and ma & (ma - 1) == 0:
            return B_T
        if a[2] >= 0 and a[2] == b[2]:
            return B_T      # both read from the same lookahead slot in the current epoch
        # tie
        for x, y in ((a, b), (b, a)):
            if x[2] >= 0 and y[1] & (y[1] - 1) == 0:
                return ("b", 2, x[2], x[1] & y[1], x[1] & ~y[1])
        return B_U

    # ------------------------------------------------------------------ state ops
    def consume(self, st, n, key, site, body):
        """pos += n"""
        w = st.win
        eaten = 0
        for i in range(min(n, WIN)):
            eaten |= w[i]
        if eaten & self.EOF:
            self.alarm(key, "EOFSAFE", body, site, f"consumes {n} token(s) while the first {n} lookahead entries may be EOF: {[self.names(x) for x in w[:n]]}")
        else:
            self.fact("EOFSAFE", body.npath, n)
        if (eaten & self.ERROR) and not st.err:
            st.ate_err = True
        # which node receives the token: the innermost open marker is one handed in by the caller or a local one
        top = st.ms[-1] if st.ms else None
        cls = "none" if top is None else ("passed" if isinstance(top, tuple) and top and top[0] == "in" else "local")
        self.token_parent[(key[0], w[0] if n == 1 else -1)].add(cls)
        if top is not None and n == 1:
            d = dict(st.mt)
            d[top] = d.get(top, 0) | w[0]
            st.mt = tuple(sorted(d.items(), key=repr))
        if n < WIN:
            st.win = tuple(w[n:WIN]) + (self.alphabet,) * n + (w[4] >> n, w[5] >> n)
        else:
            st.win = self.TOPWIN
        st.consumed = True
        if st.prog:
            st.prog = tuple((h, True) for h, _ in st.prog)
        # invalidate ties; remembered positions are relative to the current one
        loc = st.loc
        for i, v in enumerate(loc):
            if v is not None:
                if v[0] == "pos":
                    loc[i] = ("pos", v[1] - n)
                elif self.has_tie(v):
                    loc[i] = self.untie(v)

    def has_tie(self, v):
        t = v[0]
        if t == "k":
            return v[2] >= 0
        if t == "kd":
            return v[2] >= 0
        if t == "b":
            return len(v) > 2
        if t == "agg":
            return any(self.has_tie(f) for f in v[3])
        if t == "clos":
            return any(self.has_tie(f) for f in v[2])
        return False

    def untie(self, v):
        t = v[0]
        if t == "k":
            return ("k", v[1], -1)
        if t == "kd":
            return ("kd", v[1], -1, v[3])
        if t == "b":
            return ("b", v[1])
        if t == "agg":
            return ("agg", v[1], v[2], tuple(self.untie(f) if self.has_tie(f) else f for f in v[3]))
        if t == "clos":
            return ("clos", v[1], tuple(self.untie(f) if self.has_tie(f) else f for f in v[2]))
        return v

    def refine_slot(self, st, slot, mask):
        """win[slot] &= mask (also narrows tied values). Returns False if infeasible."""
        nw = st.win[slot] & mask
        if nw == 0:
            return False
        if nw != st.win[slot]:
            w = list(st.win)
            w[slot] = nw
            # EOF is absorbing: EOF at slot i means EOF at all later slots; non-EOF at slot i means non-EOF earlier
            if nw == self.EOF:
                for j in range(slot + 1, WIN):
                    if w[j] & self.EOF:
                        w[j] = self.EOF
                    else:
                        return False
            elif not (nw & self.EOF):
                for j in range(slot):
                    w[j] &= ~self.EOF
                    if w[j] == 0:
                        return False
            st.win = tuple(w)
            loc = st.loc
            for i, v in enumerate(loc):
                if v is not None and v[0] in ("k", "kd") and v[2] == slot:
                    m = v[1] & nw
                    loc[i] = (v[0], m, slot) + tuple(v[3:])
        return True

    def alarm(self, key, rule, body, site, what, extra=""):
        self.cur_alarms.append((Alarm(rule, body.npath, site, what, extra), self.cur_site if self.depth > 0 else None))

    def fact(self, rule, fn, detail):
        self.cur_facts.append((rule, fn, detail))

    # ------------------------------------------------------------------ analysis of one (fn, ctx)
    def analyze(self, key):
        self.onstack.add(key)
        try:
            return self.analyze_(key)
        finally:
            self.onstack.discard(key)

    def analyze_(self, key):
        fn, win, args, ms_in = key
        body = self.prog.body(fn)
        self.cur_alarms = []
        self.cur_facts = []
        self.cur_edges = {}
        self.stats["runs"] += 1
        self.runs_by_fn[fn] += 1
        loc = [None] * len(body.locals)
        for i, a in enumerate(args):
            loc[i + 1] = a
        st0 = St(win, loc, ms=ms_in)
        self.depth = 0
        finals = self.run_body(body, st0, key)
        # a returned boolean that still carries a lookahead test is split into its two refined outcomes
        exp = []
        for s, rv in finals:
            if rv[0] == "b" and rv[1] == 2 and len(rv) > 2 and rv[2] == "j":
                s1 = s.copy()
                s1.win = s1.win[:4] + (s1.win[4] | rv[3], s1.win[5])
                s.win = s.win[:4] + (s.win[4], s.win[5] | rv[3])
                exp.append((s1, B_T))
                exp.append((s, B_F))
            elif rv[0] == "b" and rv[1] == 2 and len(rv) > 2:
                s1 = s.copy()
                if self.refine_slot(s1, rv[2], rv[3]):
                    exp.append((s1, B_T))
                if self.refine_slot(s, rv[2], rv[4]):
                    exp.append((s, B_F))
            else:
                exp.append((s, rv))
        finals = exp
        merged = {}
        for s, rv in finals:
            rv = self.untie(rv) if self.has_tie(rv) else rv
            k2 = (s.consumed, s.err, s.ate_err, s.cerr, rv, s.ms)
            if k2 in merged:
                w = merged[k2]
                merged[k2] = tuple(w[i] | s.win[i] for i in range(WIN)) + (w[4] & s.win[4], w[5] & s.win[5])
            else:
                merged[k2] = s.win
        outs = set((w, k2[0], k2[1], k2[2], k2[3], k2[4], k2[5]) for k2, w in merged.items())
        self.alarms[key] = self.cur_alarms
        self.edge_record(key, self.cur_edges)
        self.facts_by_key = getattr(self, "facts_by_key", {})
        self.facts_by_key[key] = self.cur_facts
        return outs

    def run_body(self, body, st0, key):
        """Path-sensitive interpretation of one body from st0; returns [(final state, return value)]."""
        nloc = len(body.locals)
        live = self.liveness(body)
        headers, back = self.loop_info(body)
        finals = []
        fin_seen = set()
        seen = [dict() for _ in body.blocks]
        rpo = self.rpo_index(body)
        work = _Heap(rpo)
        work.append((0, st0, -1))
        steps = 0
        while work:
            bb, st, frm = work.pop()
            steps += 1
            if steps % 2000 == 0:
                import time as _time
                if _time.time() > self.deadline:
                    raise BudgetExceeded(f"while analysing {body.npath}: {len(self.memo)} contexts, {sum(len(v) for v in self.memo.values())} outcomes")
            if steps > 300000:
                self.alarm(key, "AI-BUDGET", body, body.at, "state budget exceeded")
                break
            if bb in headers:
                d = dict(st.prog)
                if (frm, bb) in back or (frm != -1 and frm in headers[bb] and bb in d):
                    if not d.get(bb, False):
                        self.alarm(key, "PROGRESS", body, body.blocks[bb].term["at"],
                                   f"loop at bb{bb} can iterate without consuming a token (window {[self.names(x, 5) for x in st.win[:WIN]]})", f"loop{self.loop_ordinal(body, bb)}")
                        continue
                    else:
                        self.fact("PROGRESS", body.npath, bb)
                d[bb] = False
                st.prog = tuple(sorted(d.items()))
            if st.prog:
                st.prog = tuple((h, v) for h, v in st.prog if bb in headers.get(h, ()))
            lv = live[bb]
            lc = st.loc
            for i in range(nloc):
                if lc[i] is not None and i not in lv:
                    lc[i] = None
            k_ = (st.consumed, st.err, st.ate_err, st.cerr, st.ms, st.prog, tuple(lc), st.mt)
            sb = seen[bb]
            old = sb.get(k_)
            w = st.win
            if old is not None:
                if all((w[i] | old[i]) == old[i] for i in range(WIN)) and (old[4] & w[4]) == old[4] and (old[5] & w[5]) == old[5]:
                    continue
                w = tuple(w[i] | old[i] for i in range(WIN)) + (old[4] & w[4], old[5] & w[5])
                st.win = w
            sb[k_] = w
            bl = body.blocks[bb]
            for s_ in bl.stmts:
                if s_["k"] == "assign":
                    v = self.rvalue(st, s_["rv"], body)
                    lhs = s_["lhs"]
                    if not lhs["p"]:
                        st.loc[lhs["l"]] = v
                    else:
                        self.store(st, lhs, v, key, s_, body)
            t = bl.term
            tk = t["k"]
            if tk == "goto":
                work.append((t["target"], st, bb))
            elif tk == "return":
                rv = st.loc[0] if st.loc[0] is not None else TOP
                fk = (st.win, st.consumed, st.err, st.ate_err, st.cerr, st.ms, rv, st.mt)
                if fk not in fin_seen:
                    fin_seen.add(fk)
                    finals.append((st, rv))
            elif tk == "switch":
                self.do_switch(st, t, body, bb, work)
            elif tk == "assert":
                c = self.operand(st, t["cond"], body)
                exp = 1 if t["expected"] else 0
                if c[0] == "b" and c[1] != 2:
                    if c[1] == exp:
                        work.append((t["target"], st, bb))
                    else:
                        self.alarm(key, "PANIC", body, t["at"], f"assert {t['kind']} always fails here")
                else:
                    self.panic_site(key, body, t, "assert:" + t["kind"], st)
                    work.append((t["target"], st, bb))
            elif tk == "drop":
                v = self.read_place(st, t["pl"], body)
                if self.contains_open_marker(v):
                    self.alarm(key, "MARKER-LINEAR", body, t["at"], f"an open Marker is dropped here without complete/abandon (type {t['ty']})")
                if not t["pl"]["p"]:
                    st.loc[t["pl"]["l"]] = None
                work.append((t["target"], st, bb))
            elif tk == "call":
                if self.depth == 0:
                    self.cur_site = (t["at"], (body.callee_of(t) or "?"), bb)
                self.do_call(st, t, body, bb, work, key)
        self.stats["steps"] += steps
        self.fnsteps[body.npath] += steps
        return finals

    def loop_ordinal(self, body, bb):
        headers, _ = self.loop_info(body)
        hs = sorted(headers)
        return hs.index(bb) if bb in hs else -1

    def contains_open_marker(self, v):
        if v is None:
            return False
        if v[0] == "mk":
            return True
        if v[0] == "agg":
            return any(self.contains_open_marker(f) for f in v[3])
        return False

    def outcome(self, st, rv):
        return (st.win, st.consumed, st.err, st.ate_err, st.cerr, rv, st.ms)

    def store(self, st, lhs, v, key, stmt, body):
        """Write through a projection. Returns False if the path is infeasible."""
        base = st.loc[lhs["l"]]
        fields = [p for p in lhs["p"] if p[0] == "field"]
        if base == PARSER and len(fields) == 1:
            if fields[0][1] == self.pfield["pos"]:
                if v[0] == "pos":
                    n = v[1]
                    if n > 0:
                        self.consume(st, n, key, stmt["at"], body)
                    return True
                self.alarm(key, "AI-MODEL", body, stmt["at"], f"Parser.pos is assigned a value that is not pos+k ({v}); the consumption model does not apply")
                st.win = self.TOPWIN
                return True
            return True   # events / steps: not part of the abstract state
        if base is not None and base[0] == "agg" and len(fields) == 1 and len(lhs["p"]) == 1:
            fs = list(base[3])
            i = fields[0][1]
            if i < len(fs):
                fs[i] = v
                st.loc[lhs["l"]] = ("agg", base[1], base[2], tuple(fs))
                return True
        if base is None and len(fields) == 1 and len(lhs["p"]) == 1:
            # building a tuple/struct field by field
            t = body.local_ty(lhs["l"])
            n = fields[0][1] + 1
            fs = [TOP] * max(n, 2)
            fs[fields[0][1]] = v
            st.loc[lhs["l"]] = ("agg", "tuple" if t.startswith("(") else (ty_adt(t) or "tuple"), 0, tuple(fs))
            return True
        if base is not None and base[0] != "agg" and base != PARSER:
            st.loc[lhs["l"]] = TOP
        return True

    def do_switch(self, st, t, body, bb, work):
        v = self.operand(st, t["discr"], body)
        cases = [(int(c[0]), c[1]) for c in t["cases"]]
        other = t["otherwise"]
        if v[0] == "b":
            tru = other
            fal = None
            for val, tgt in cases:
                if val == 0:
                    fal = tgt
                else:
                    tru = tgt
            if fal is None:
                fal = other
            if v[1] == 1:
                work.append((tru, st, bb))
            elif v[1] == 0:
                work.append((fal, st, bb))
            else:
                if len(v) > 2 and v[2] == "j":
                    s1 = st.copy()
                    s1.win = s1.win[:4] + (s1.win[4] | v[3], s1.win[5])
                    st.win = st.win[:4] + (st.win[4], st.win[5] | v[3])
                    work.append((tru, s1, bb))
                    work.append((fal, st, bb))
                elif len(v) > 2:
                    slot, tm, fm = v[2], v[3], v[4]
                    s1 = st.copy()
                    if self.refine_slot(s1, slot, tm):
                        work.append((tru, s1, bb))
                    if self.refine_slot(st, slot, fm):
                        work.append((fal, st, bb))
                else:
                    work.append((tru, st.copy(), bb))
                    work.append((fal, st, bb))
            return
        if v[0] in ("k", "kd"):
            mask, slot = v[1], v[2]
            src = v[3] if v[0] == "kd" else -1
            rest = mask
            for val, tgt in cases:
                bit = 1 << val
                if mask & bit:
                    rest &= ~bit
                    s1 = st.copy()
                    ok = True
                    if slot >= 0:
                        ok = self.refine_slot(s1, slot, bit)
                    if ok:
                        if src >= 0 and s1.loc[src] is not None and s1.loc[src][0] == "k":
                            s1.loc[src] = ("k", s1.loc[src][1] & bit, s1.loc[src][2])
                        work.append((tgt, s1, bb))
            if rest:
                ok = True
                if slot >= 0:
                    ok = self.refine_slot(st, slot, rest)
                if ok:
                    if src >= 0 and st.loc[src] is not None and st.loc[src][0] == "k":
                        st.loc[src] = ("k", st.loc[src][1] & rest, st.loc[src][2])
                    if body.blocks[other].term["k"] != "unreachable":
                        work.append((other, st, bb))
            return
        if v[0] == "i":
            for val, tgt in cases:
                if val == v[1]:
                    work.append((tgt, st, bb))
                    return
            work.append((other, st, bb))
            return
        # unknown: all branches
        tg = []
        for val, tgt in cases:
            if tgt not in tg:
                tg.append(tgt)
        if other not in tg and body.blocks[other].term["k"] != "unreachable":
            tg.append(other)
        for i, tgt in enumerate(tg):
            work.append((tgt, st.copy() if i < len(tg) - 1 else st, bb))

    def panic_site(self, key, body, t, what, st):
        self.cur_alarms.append((Alarm("PANIC-SITE", body.npath, t["at"], what, what), self.cur_site if self.depth > 0 else None))

    # ------------------------------------------------------------------ calls
    def do_call(self, st, t, body, bb, work, key):
        cal = body.callee_of(t) or ""
        args = [self.operand(st, a, body) for a in t["args"]]
        tgt = t["target"]
        dest = t["dest"]

        def ret(s, v):
            if tgt is None:
                return
            if not dest["p"]:
                s.loc[dest["l"]] = v
            else:
                self.store(s, dest, v, key, t, body)
            work.append((tgt, s, bb))

        # ---- panics
        if tgt is None:
            msg = ""
            for a in t["args"]:
                if a.get("k") == "const" and "str" in a:
                    msg = a["str"]
            macro = [e for e in t.get("exp", []) if e in ("assert", "debug_assert", "unreachable", "panic", "todo", "unimplemented", "assert_eq", "assert_ne")]
            self.cur_alarms.append((Alarm("PANIC-REACH", body.npath, t["at"], f"{cal} {msg!r} {macro}", f"{(macro or [cal.split('::')[-1]])[0]}:{msg}"), self.cur_site if self.depth > 0 else None))
            return
        # ---- primitives
        if cal == "oq3_parser::input::Input::kind":
            p = args[1] if len(args) > 1 else TOP
            if p[0] == "pos":
                n = p[1]
                if n < WIN:
                    ret(st, kind(st.win[n], n))
                else:
                    ret(st, kind(self.alphabet))
            else:
                ret(st, kind(self.alphabet))
            return
        if cal == "oq3_parser::input::Input::is_joint":
            p = args[1] if len(args) > 1 else TOP
            if p[0] == "pos" and p[1] < WIN:
                bit = 1 << p[1]
                if st.win[4] & bit:
                    ret(st, B_T)
                elif st.win[5] & bit:
                    ret(st, B_F)
                else:
                    ret(st, ("b", 2, "j", bit, bit))
            else:
                ret(st, B_U)
            return
        if cal == "oq3_parser::token_set::TokenSet::contains":
            ts, k = args[0], args[1]
            if ts[0] == "ts" and k[0] in ("k", "kd"):
                hi = k[1] >> 128
                if hi and self.contains_guarded:
                    self.fact("TS128", body.npath, 2)
                elif hi:
                    self.alarm(key, "TS128", body, t["at"], f"TokenSet::contains called with a kind that may be >= 128 {self.names(hi << 128)}: `1u128 << kind` overflows", "contains")
                else:
                    self.fact("TS128", body.npath, 1)
                inter = k[1] & ts[1]
                outm = k[1] & ~ts[1]
                if outm == 0:
                    ret(st, B_T)
                elif inter == 0:
                    ret(st, B_F)
                elif k[2] >= 0:
                    ret(st, ("b", 2, k[2], inter, outm))
                else:
                    ret(st, B_U)
            else:
                ret(st, B_U)
            return
        if cal == PP + "Parser::push_event":
            ev = args[1] if len(args) > 1 else TOP
            if ev[0] == "agg":
                vn = self.variant_name(ev[1], ev[2])
                if vn == "Error":
                    st.err = True
            ret(st, ("agg", "tuple", 0, ()))
            return
        if cal == PP + "Parser::start":
            mk = ("mk", (body.npath, bb))
            if mk[1] in st.ms:
                self.alarm(key, "MARKER-LIFO", body, t["at"], "a marker created at this site is still open when the site is reached again (leaked across iterations)")
            st.ms = st.ms + (mk[1],)
            if len(st.ms) > 12:
                self.alarm(key, "MARKER-LIFO", body, t["at"], "marker stack grows without bound")
                return
            ret(st, mk)
            return
        if cal == PP + "Marker::complete":
            m, k = args[0], args[2] if len(args) > 2 else TOP
            self.closed_tokens = 0
            self.close_marker(st, m, key, body, t, "complete")
            km = k[1] if k[0] == "k" else self.all_kinds()
            if self.closed_tokens and not st.err:      # only parses without a diagnostic so far in this activation
                self.node_tokens[km if k[0] == "k" else -1] |= self.closed_tokens
            if (km & self.ERROR) and not st.err:
                st.cerr = True
            ret(st, ("agg", PP + "CompletedMarker", 0, (TOP, kind(km))))
            return
        if cal == PP + "Marker::abandon":
            self.close_marker(st, args[0], key, body, t, "abandon")
            ret(st, ("agg", "tuple", 0, ()))
            return
        if cal == PP + "CompletedMarker::precede":
            mk = ("mk", (body.npath, bb))
            st.ms = st.ms + (mk[1],)
            ret(st, mk)
            return
        if cal == PP + "CompletedMarker::extend_to":
            self.close_marker(st, args[2] if len(args) > 2 else TOP, key, body, t, "extend_to")
            ret(st, args[0])
            return
        if cal.startswith("std::cell::Cell") or cal.startswith("ra_ap_limit::") or cal.startswith("limit::"):
            ret(st, TOP)
            return
        # ---- std models
        r = self.std_model(st, cal, args, t, body, key)
        if r is not None:
            for (s2, v) in r:
                ret(s2, v)
            return
        # ---- closures
        if cal.endswith(("FnMut::call_mut", "FnOnce::call_once", "Fn::call")) and args and args[0][0] in ("clos", "fn"):
            f = args[0]
            tup = args[1] if len(args) > 1 else ("agg", "tuple", 0, ())
            cargs = tup[3] if tup[0] == "agg" else ()
            if f[0] == "clos":
                self.call_local(st, f[1], (f,) + tuple(cargs), t, body, bb, key, ret)
            else:
                self.call_local(st, f[1], tuple(cargs), t, body, bb, key, ret)
            return
        # ---- local bodies
        if cal in self.prog.bodies and self.prog.bodies[cal].crate == "oq3_parser":
            self.call_local(st, cal, tuple(args), t, body, bb, key, ret)
            return
        # ---- opaque
        if any(a == PARSER for a in args):
            self.alarm(key, "AI-MODEL", body, t["at"], f"the parser is passed to an unmodelled function {cal}")
            st.win = self.TOPWIN
        ret(st, self.opaque_result(cal, t, body))

    def all_kinds(self):
        m = 0
        for d in self.kname:
            m |= 1 << d
        return m

    def opaque_result(self, cal, t, body):
        ty = body.local_ty(t["dest"]["l"]) if not t["dest"]["p"] else ""
        if ty == "bool":
            return B_U
        return TOP

    def variant_name(self, adt, vidx):
        a = self.prog.adts.get(adt)
        if a and vidx < len(a["variants"]):
            return a["variants"][vidx]["name"]
        if adt.endswith("option::Option"):
            return ["None", "Some"][vidx]
        return str(vidx)

    @staticmethod
    def mname(m):
        """printable name of a marker id (creation site, or a renamed id of a caller/callee marker)"""
        try:
            if isinstance(m, tuple) and len(m) == 2 and isinstance(m[0], str) and "::" in m[0]:
                return f"{m[0].split('::')[-1]}:bb{m[1]}"
        except Exception:
            pass
        return str(m)[:80]

    def close_marker(self, st, m, key, body, t, op):
        if m[0] != "mk":
            self.alarm(key, "AI-MODEL", body, t["at"], f"{op} on a value that is not a tracked marker ({m})")
            return
        mid = m[1]
        if st.mt:
            d = dict(st.mt)
            self.closed_tokens = d.pop(mid, 0)
            st.mt = tuple(sorted(d.items(), key=repr))
        else:
            self.closed_tokens = 0
        if mid not in st.ms:
            self.alarm(key, "MARKER-LIFO", body, t["at"], f"{op} of a marker that is not open in this activation (double close?)", op)
            return
        if st.ms[-1] != mid:
            inner = [x for x in st.ms[st.ms.index(mid) + 1:]]
            self.alarm(key, "MARKER-LIFO", body, t["at"],
                       f"{op} closes a marker while {len(inner)} marker(s) created after it are still open ({[self.mname(x) for x in inner]}): nodes would not nest", op)
            st.ms = tuple(x for x in st.ms if x != mid)
        else:
            st.ms = st.ms[:-1]
            self.fact("MARKER-LIFO", body.npath, op)

    # ---- std function models
    def std_model(self, st, cal, args, t, body, key):
        last = cal.rsplit("::", 1)[-1]
        a0 = args[0] if args else TOP
        is_opt = "option::Option" in cal or (a0[0] == "agg" and a0[1].endswith("option::Option"))
        if cal.endswith(" as std::cmp::PartialEq>::eq") or cal.endswith(" as std::cmp::PartialEq>::ne") or cal in ("std::cmp::PartialEq::ne", "std::cmp::PartialEq::eq", "core::cmp::PartialEq::ne"):
            if len(args) == 2:
                r = self.struct_eq(args[0], args[1])
                if last == "ne":
                    r = self.bnot(r)
                return [(st, r)]
        if is_opt and a0[0] == "agg" and a0[1].endswith("option::Option"):
            some = a0[2] == 1
            inner = a0[3][0] if some and a0[3] else TOP
            if last == "is_some":
                return [(st, B_T if some else B_F)]
            if last == "is_none":
                return [(st, B_F if some else B_T)]
            if last in ("unwrap", "expect"):
                if some:
                    return [(st, inner)]
                self.alarm(key, "PANIC", body, t["at"], "unwrap on None")
                return []
            if last == "unwrap_or_else":
                if some:
                    return [(st, inner)]
                return self.call_closure(st, args[1], (), t, body, key)
            if last == "map":
                if not some:
                    return [(st, a0)]
                res = self.call_closure(st, args[1], (inner,), t, body, key)
                return [(s2, ("agg", a0[1], 1, (v,))) for s2, v in res]
            if last == "ok_or" or last == "ok":
                return [(st, TOP)]
        if cal.endswith("as std::ops::Try>::branch") and a0[0] == "agg" and a0[1].endswith("option::Option"):
            CF = "std::ops::ControlFlow"
            if a0[2] == 1:
                return [(st, ("agg", CF, 0, (a0[3][0],)))]
            return [(st, ("agg", CF, 1, (("agg", a0[1], 0, ()),)))]
        if cal.endswith("as std::ops::FromResidual<std::option::Option<std::convert::Infallible>>>::from_residual"):
            return [(st, ("agg", "std::option::Option", 0, ()))]
        if cal.endswith(" as std::clone::Clone>::clone") or last in ("clone", "into", "from", "as_ref", "deref", "borrow", "to_owned") and not cal.startswith("oq3_"):
            if a0[0] in ("k", "i", "b", "agg", "ts"):
                return [(st, a0)]
        return None

    def struct_eq(self, a, b):
        if a[0] in ("k", "kd") and b[0] in ("k", "kd"):
            return self.kind_eq(a, b)
        if a[0] == "i" and b[0] == "i":
            return B_T if a[1] == b[1] else B_F
        if a[0] == "b" and b[0] == "b" and a[1] != 2 and b[1] != 2:
            return B_T if a[1] == b[1] else B_F
        if a[0] == "agg" and b[0] == "agg" and a[1] == b[1]:
            if a[2] != b[2]:
                return B_F
            res = B_T
            for x, y in zip(a[3], b[3]):
                r = self.struct_eq(x, y)
                if r == B_F:
                    return B_F
                if r != B_T:
                    res = B_U
            return res
        return B_U

    def call_closure(self, st, f, cargs, t, body, key):
        """Run a closure body synchronously; returns [(state, value)]."""
        out = []

        def ret(s, v):
            out.append((s, v))
        if f[0] == "clos":
            self.call_local(st, f[1], (f,) + tuple(cargs), t, body, None, key, ret, direct=True)
        elif f[0] == "fn":
            self.call_local(st, f[1], tuple(cargs), t, body, None, key, ret, direct=True)
        else:
            self.alarm(key, "AI-MODEL", body, t["at"], f"call of an unknown closure value {f}")
            out.append((st, TOP))
        return out

    def inlinable(self, cal):
        b = self.prog.bodies.get(cal)
        if b is not None and not any(self.is_parser_ty(b.local_ty(i)) for i in range(1, b.nargs + 1)) and "{closure" not in cal:
            return True
        return (self.is_parser_method(cal) or cal.startswith(SK + "::") or cal.startswith("<" + SK) or "{closure" in cal
                or cal.startswith("oq3_parser::grammar::BlockLike::") or cal.startswith("<oq3_parser::grammar::") or cal.startswith("oq3_parser::event::Event::")
                or cal.startswith("oq3_parser::token_set::"))

    def call_inline(self, st, cal, args, t, body, key, ret):
        cb = self.prog.bodies[cal]
        leaf = "{closure" not in cal
        if leaf:
            ck = (cal, st.win, tuple(args), st.ms, st.mt)
            hit = self.icache.get(ck)
            if hit is not None:
                self.stats["icache_hit"] += 1
                finals, alarms, facts = hit
                self.cur_alarms.extend((a, self.cur_site) for a, _ in alarms)
                self.cur_facts.extend(facts)
                self.finish_inline(st, finals, cal, t, body, key, ret)
                return
            saved = (self.cur_alarms, self.cur_facts)
            self.cur_alarms, self.cur_facts = [], []
        self.depth += 1
        if self.depth > 12:
            if leaf:
                self.cur_alarms, self.cur_facts = saved
            self.alarm(key, "AI-MODEL", body, t["at"], f"inlining depth exceeded at {cal}")
            self.depth -= 1
            ret(st, TOP)
            return
        loc = [None] * len(cb.locals)
        for i, a in enumerate(args[:cb.nargs]):
            loc[i + 1] = a
        s0 = St(st.win, loc, ms=st.ms, consumed=False, err=False, mt=st.mt)
        self.outer_consumed.append(st.consumed or (self.outer_consumed[-1] if self.outer_consumed else False))
        finals = self.run_body(cb, s0, key)
        self.outer_consumed.pop()
        self.depth -= 1
        if leaf:
            self.icache[ck] = (finals, self.cur_alarms, self.cur_facts)
            saved[0].extend((a, self.cur_site) for a, _ in self.cur_alarms)
            saved[1].extend(self.cur_facts)
            self.cur_alarms, self.cur_facts = saved
        self.finish_inline(st, finals, cal, t, body, key, ret)

    def finish_inline(self, st, finals, cal, t, body, key, ret):
        caller_is_method = self.is_parser_method(body.npath) or "{closure" in body.npath
        for i, (sf, rv) in enumerate(finals):
            s2 = st.copy() if i < len(finals) - 1 else st
            if sf.consumed:
                for j, v in enumerate(s2.loc):
                    if v is not None:
                        if v[0] == "pos":
                            s2.loc[j] = ("posold",) if v[1] <= 0 else TOP
                        elif self.has_tie(v):
                            s2.loc[j] = self.untie(v)
                s2.consumed = True
                if s2.prog:
                    s2.prog = tuple((h, True) for h, _ in s2.prog)
                s2.win = sf.win
                if self.has_tie(rv) and False:
                    rv = self.untie(rv)
            else:
                ok = True
                for sl in range(WIN):
                    if sf.win[sl] != s2.win[sl]:
                        if not self.refine_slot(s2, sl, sf.win[sl]):
                            ok = False
                            break
                if not ok:
                    continue
                s2.win = s2.win[:4] + (s2.win[4] | sf.win[4], s2.win[5] | sf.win[5])
            self.propagate_err(s2, sf.ate_err, sf.cerr, sf.err, cal, t, body, key, caller_is_method)
            s2.ms = sf.ms
            s2.mt = sf.mt
            ret(s2, rv)

    def propagate_err(self, s2, ate_err, cerr, err, cal, t, body, key, caller_is_method):
        if ate_err and not s2.err:
            if caller_is_method:
                s2.ate_err = True
            else:
                self.alarm(key, "ERRNODE", body, t["at"], f"call to {cal.split('::')[-1]} may consume a token of kind ERROR (unknown character) on a path that reports no syntax error in this function", "eat:" + cal.split("::")[-1])
        if cerr and not s2.err:
            if caller_is_method:
                s2.cerr = True
            else:
                self.alarm(key, "ERRNODE", body, t["at"], f"call to {cal.split('::')[-1]} completes an ERROR node on a path that reports no syntax error", "node:" + cal.split("::")[-1])
        if err:
            s2.err = True

    def call_local(self, st, cal, args, t, body, bb, key, ret, direct=False):
        if cal not in self.prog.bodies:
            ret(st, TOP)
            return
        if self.inlinable(cal):
            self.call_inline(st, cal, args, t, body, key, ret)
            return
        cb = self.prog.bodies[cal]
        # markers handed to the callee must be the top of our stack, in order
        passed = []
        for a in args:
            self.collect_markers(a, passed)
        if passed:
            top = st.ms[len(st.ms) - len(passed):] if len(passed) <= len(st.ms) else ()
            if tuple(passed) != tuple(top) and sorted(passed) != sorted(top):
                self.alarm(key, "MARKER-LIFO", body, t["at"], f"marker(s) passed to {cal.split('::')[-1]} are not the innermost open markers", "pass")
        # context
        nargs = cb.nargs
        ren = {k: ("in", i) for i, k in enumerate(passed)}
        back_ren = {v: k for k, v in ren.items()}
        cargs = tuple(self.rename_markers(a, ren) for a in args[:nargs]) + (TOP,) * max(0, nargs - len(args))
        # record the exact argument values per call site (tables such as "right operand parsed at op_bp+1"),
        # then widen integer arguments in the callee context (binding powers do not influence any obligation
        # inside the callee; keeping them would multiply contexts by the number of precedence levels)
        if bb is not None:
            self.callargs[(body.npath, cal, bb)].add(tuple(a for a in cargs if a[0] in ("i", "k", "b", "top")))
            self.edge_first[(body.npath, cal, bb)] |= st.win[0]       # first-token kinds with which this call site is reached
            # node kinds of completed markers handed to the callee (e.g. the operand a postfix form is applied to)
            for a in cargs:
                if a[0] == "agg" and a[1].endswith("CompletedMarker") and len(a[3]) == 2:
                    km = a[3][1]
                    self.cm_kinds[(body.npath, cal)] |= (km[1] if km[0] == "k" else -1)
        cargs = tuple((("ige", 1) if a[1] >= 1 else a) if a[0] == "i" else a for a in cargs)
        cwin = self.canon_win(st.win)
        ckey = (cal, cwin, cargs, tuple(ren[k] for k in passed))
        self.ctx_count[cal] += 0
        if ckey not in self.memo:
            self.ctx_count[cal] += 1
            if self.ctx_count[cal] > self.ctx_cap:
                self.widened.add(cal)
        # record call edge progress
        e = (key, ckey)
        eff = st.consumed or (self.outer_consumed[-1] if self.outer_consumed else False)
        self.cur_edges[e] = self.cur_edges.get(e, True) and eff
        outs = self.summary(ckey, key)
        base_ms = st.ms[:len(st.ms) - len(passed)] if passed else st.ms
        outs = list(outs)
        # result unused by the caller: outcomes that differ only in the returned value are merged
        if bb is not None and t["target"] is not None and not t["dest"]["p"] and t["dest"]["l"] not in self.liveness(body)[t["target"]] and len(outs) > 1:
            mg = {}
            for (w, consumed, err, ate_err, cerr, rv, ms_out) in outs:
                if self.contains_open_marker(rv):
                    mg[(consumed, err, ate_err, cerr, rv, ms_out)] = w
                    continue
                k2 = (consumed, err, ate_err, cerr, TOP, ms_out)
                if k2 in mg:
                    o = mg[k2]
                    mg[k2] = tuple(o[i] | w[i] for i in range(WIN)) + (o[4] & w[4], o[5] & w[5])
                else:
                    mg[k2] = w
            outs = [(w, k2[0], k2[1], k2[2], k2[3], k2[4], k2[5]) for k2, w in mg.items()]
        for i, (w, consumed, err, ate_err, cerr, rv, ms_out) in enumerate(outs):
            s2 = st.copy() if i < len(outs) - 1 else st
            if consumed:
                # callee consumed: our ties are stale; callee's exit window is authoritative
                for j, v in enumerate(s2.loc):
                    if v is not None:
                        if v[0] == "pos":
                            s2.loc[j] = ("posold",) if v[1] <= 0 else TOP
                        elif self.has_tie(v):
                            s2.loc[j] = self.untie(v)
                s2.consumed = True
                if s2.prog:
                    s2.prog = tuple((h, True) for h, _ in s2.prog)
                s2.win = w
            else:
                # window can only have been refined
                ok = True
                for sl in range(WIN):
                    if w[sl] != s2.win[sl]:
                        if not self.refine_slot(s2, sl, w[sl]):
                            ok = False
                            break
                if not ok:
                    continue
                s2.win = s2.win[:4] + (s2.win[4] | w[4], s2.win[5] | w[5])
            self.propagate_err(s2, ate_err, cerr, err, cal, t, body, key, self.is_parser_method(body.npath) or "{closure" in body.npath)
            site = (body.npath, bb)
            ren2 = dict(back_ren)
            for mk_ in ms_out:
                if mk_ not in ren2:
                    ren2[mk_] = ("ret", site, mk_) if mk_[0] != "ret" else ("ret", site, mk_[2])
            s2.ms = base_ms + tuple(ren2[m_] for m_ in ms_out)
            if s2.mt:
                s2.mt = tuple(x for x in s2.mt if x[0] in s2.ms)
            ret(s2, self.rename_markers(rv, ren2))

    def rename_markers(self, v, ren):
        if v is None or not ren:
            return v
        if v[0] == "mk":
            return ("mk", ren.get(v[1], v[1]))
        if v[0] == "agg" and any(f is not None and f[0] in ("mk", "agg") for f in v[3]):
            return ("agg", v[1], v[2], tuple(self.rename_markers(f, ren) for f in v[3]))
        return v

    def is_parser_method(self, fn):
        return fn.startswith(PP + "Parser::") or fn.startswith(PP + "Marker::") or fn.startswith(PP + "CompletedMarker::")

    def collect_markers(self, v, acc):
        if v is None:
            return
        if v[0] == "mk":
            acc.append(v[1])
        elif v[0] == "agg":
            for f in v[3]:
                self.collect_markers(f, acc)

    def edge_record(self, key, edges):
        self.edges_by_key = getattr(self, "edges_by_key", {})
        self.edges_by_key[key] = edges

    # ------------------------------------------------------------------ results
    def all_alarms(self):
        """[(context key, Alarm, via)]"""
        out = []
        for key, al in self.alarms.items():
            for a, via in al:
                out.append((key, a, via))
        return out

    def all_facts(self):
        out = []
        for key, fs in getattr(self, "facts_by_key", {}).items():
            for f in fs:
                out.append((key, f))
        return out

    def call_edges(self):
        """(caller, callee) -> True iff every call in every context was preceded by a consumption since caller entry."""
        res = {}
        for key, edges in getattr(self, "edges_by_key", {}).items():
            for e, v in edges.items():
                res[e] = res.get(e, True) and v
        return res
